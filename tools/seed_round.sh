#!/bin/bash
# usage: seed_round.sh <round> <prop>...   creates worktrees /tmp/wt<round>-<prop> (contract files removed) and prompts /tmp/prompt<round>-<prop>.txt
set -u
r=$1; shift
for p in "$@"; do
  wt=/tmp/wt$r-$p
  git -C /repo worktree add --detach $wt >/dev/null 2>&1
  find $wt -name verif_contracts.go -delete
  python3 - "$p" "$wt" "$r" <<'PY'
import json,sys,os,glob
pid,wt,r=sys.argv[1:4]
for l in open('/verif/properties.jsonl'):
    d=json.loads(l)
    if d['id']==pid: break
tmpl=open('/verif/tools/seed_prompt.tmpl').read()
files=', '.join(d['anchors']['files'])
demo='seeded_demo_test.go (in the package directory of your choice)'
prev=[]
for m in sorted(glob.glob('/verif/seeded/%s-*/meta.json'%pid)):
    prev.append(os.path.basename(os.path.dirname(m))[len(pid)+1:].replace('-',' '))
s=tmpl.format(wt=wt,pid=pid,title=d['title'],stmt=d['statement'],files=files,demo=demo)
if prev:
    s+="\n\nIdeas that were already tried by others (choose something DIFFERENT in kind and location): "+"; ".join(prev)+"."
s+="\n\nNote: `git status` in the worktree shows some deleted verif_contracts.go files; ignore them, do not restore them. Also save your change (non-test files only) as /tmp/wt%s-%s.patch (git diff -- . ':!*_test.go' ':!*verif_contracts.go')."%(r,pid)
open('/tmp/prompt%s-%s.txt'%(r,pid),'w').write(s)
PY
done
ls /tmp/prompt$r-* | wc -l
