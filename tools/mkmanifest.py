#!/usr/bin/env python3
"""Regenerates /verif/MANIFEST.json from tools/claims.json (the per-property claim texts)."""
import json, os
root = os.path.dirname(os.path.dirname(os.path.abspath(__file__)))
claims = json.load(open(os.path.join(root, "tools", "claims.json")))
import subprocess
_log = subprocess.run(["git", "-C", "/repo", "log", "--format=%h %s"], capture_output=True, text=True).stdout.splitlines()
claims["_hook_commits"] = [l.split()[0] for l in _log if len(l.split()) > 1 and l.split()[1] == "verif:"]
props = [json.loads(l)["id"] for l in open(os.path.join(root, "properties.jsonl"))]
checks, na = [], []
for pid in props:
    c = claims.get(pid, {})
    if c.get("claimed"):
        checks.append({
            "property_id": pid,
            "quick_cmd": f"./check {pid} quick",
            "thorough_cmd": f"./check {pid} thorough",
            "evidence_file": f"/verif/evidence/{pid}.json",
            "replay_cmd_template": "cat {path}",
            "engine": "govc",
            "level_claimed": {"category": "proof", "text": c["level_text"], "design_ref": c.get("design_ref", "DESIGN.md section 5 / " + pid)},
            "level_note": c["level_note"],
            "technique": c.get("technique", "contract-based deductive verification: weakest-precondition VCs over go/ssa of the real code, contracts in <pkg>/verif_contracts.go, discharged by z3/cvc5"),
        })
    else:
        na.append({"property_id": pid, "reason": c.get("reason", "no contract within reach of the engine decides this property yet")})
m = {
    "version": 1,
    "setup_cmd": "cd /verif/govc && GOFLAGS=-mod=mod GOPROXY=off GOSUMDB=off GOTOOLCHAIN=local go build -o /verif/bin/govc . && /verif/bin/govc selfcheck",
    "hooks": {
        "guard": "verif",
        "enable": "go build -tags=verif (govc loads /repo with -tags=verif; the guarded files are comment-only contract files <pkg>/verif_contracts.go)",
        "baseline_off_cmd": "cd /repo && GOFLAGS=-mod=mod GOPROXY=off GOSUMDB=off go test -json -vet=off -count=1 -timeout 25m ./...",
        "source_commits": claims.get("_hook_commits", []),
        "add_only": True,
    },
    "engines": [{
        "name": "govc", "path": "/verif/govc",
        "serves_properties": [c["property_id"] for c in checks],
        "kind_free_text": "self-written VC generator: go/packages + go/ssa (x/tools v0.29.0) of /repo's working tree, Gobra-style contracts in comment-only files, one SMT-LIB query per named obligation, z3-new/z3/cvc5 portfolio, counterexample replay via go test -overlay",
    }],
    "checks": checks,
    "not_applicable": na,
    "notes": claims.get("_notes", ""),
}
json.dump(m, open(os.path.join(root, "MANIFEST.json"), "w"), indent=1)
print("claimed:", [c["property_id"] for c in checks])
