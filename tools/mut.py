#!/usr/bin/env python3
"""mut.py <name> <prop> <obligation-substring> <file-rel> <old> <new>  -> selftest/mutants/<name>.patch
Creates a must-fail mutant of /repo by a textual replacement (old must occur exactly once)."""
import sys, subprocess, tempfile, os, shutil
name, prop, obl, rel, old, new = sys.argv[1:7]
src = open(os.path.join('/repo', rel)).read()
assert src.count(old) == 1, f"old text occurs {src.count(old)} times"
d = tempfile.mkdtemp()
os.makedirs(os.path.join(d, 'a', os.path.dirname(rel)), exist_ok=True)
os.makedirs(os.path.join(d, 'b', os.path.dirname(rel)), exist_ok=True)
open(os.path.join(d, 'a', rel), 'w').write(src)
open(os.path.join(d, 'b', rel), 'w').write(src.replace(old, new))
p = subprocess.run(['diff', '-u', os.path.join('a', rel), os.path.join('b', rel)], cwd=d, capture_output=True, text=True)
out = f"# must-fail mutant: {name}\n# expect: {prop} {obl}\n" + p.stdout
open(f'/verif/selftest/mutants/{name}.patch', 'w').write(out)
shutil.rmtree(d)
print("wrote", name)
