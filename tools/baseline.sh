#!/bin/bash
# Regenerates baseline/obligations.json (names of obligations that discharge on the unchanged tree)
# for the given properties (default: all claimed). Developer command; never run by a check.
cd /verif
props="$@"
[ -z "$props" ] && props=$(python3 -c "import json;print(' '.join(c['property_id'] for c in json.load(open('MANIFEST.json'))['checks']))")
for p in $props; do GOVC_WRITE_BASELINE=1 ./check $p quick || echo "baseline: $p did not pass"; done
