#!/bin/bash
# usage: seeded_eval.sh <seed-id> <property> <worktree> <demo-rel-path>
# Saves the sub-agent's change under /verif/seeded/<seed-id>/, confirms it in a scratch copy
# (suite passes with the change; demo fails with it and passes without it), then applies it
# to /repo, runs the property's check, and undoes it.
set -u
export GOFLAGS=-mod=mod GOPROXY=off GOSUMDB=off GOTOOLCHAIN=local
id="$1"; prop="$2"; wt="$3"; demo="$4"
out=/verif/seeded/$id; mkdir -p $out
(cd $wt && git diff -- . ':!*_test.go' ':!*verif_contracts.go') > $out/patch.diff
cp $wt/$demo $out/demo_test.go
scratch=$(mktemp -d /tmp/seeded.XXXXXX); rsync -a --exclude .git /repo/ $scratch/repo/
cd $scratch/repo
cp $out/demo_test.go $demo
r_without=$(go test -vet=off -count=1 -run TestSeededDemo ./$(dirname $demo) 2>&1 | tail -1)
if ! patch -p1 -s < $out/patch.diff; then echo "patch does not apply to /repo HEAD"; rm -rf $scratch; exit 2; fi
r_with=$(go test -vet=off -count=1 -run TestSeededDemo ./$(dirname $demo) 2>&1 | tail -1)
rm $demo
r_suite=$(go test -vet=off -count=1 ./... 2>&1 | grep -v "^ok\|no test files" | head -5)
cd /; rm -rf $scratch
echo "demo without change: $r_without"; echo "demo with change:    $r_with"; echo "suite with change:    ${r_suite:-all ok}"
if [ -n "$(git -C /repo status --porcelain)" ]; then echo "refusing: /repo has uncommitted changes"; exit 3; fi
cd /repo && git apply $out/patch.diff || { echo "git apply failed"; exit 2; }
# the evidence of a changed tree must not overwrite the committed evidence: separate output directory
evout=$(mktemp -d /tmp/seeded-ev.XXXXXX)
res=$(cd /verif && GOFLAGS=-mod=mod GOPROXY=off GOSUMDB=off GOTOOLCHAIN=local /verif/bin/govc check -prop $prop -tier quick -timeout 10 -outdir $evout 2>&1 | sed "s|$evout|/verif|" | cut -c1-300)
rm -rf $evout
rc=$?
git -C /repo checkout -- . 
echo "check $prop on the changed tree:"; echo "$res" | head -8
echo "$res" > $out/check_output.txt
