#!/usr/bin/env python3
"""seed_meta.py <seed-id> <property> <first_result> <caught_by> <needs> [strengthening]"""
import json,sys,os
sid,prop,first,caught,needs=sys.argv[1:6]
d='/verif/seeded/'+sid
m=dict(property=prop,needs=needs,first_result=first,caught_by=caught,
 origin='independent sub-agent given only the property text and a scratch worktree (contract files removed)',
 what_was_run='tools/seeded_eval.sh: scratch copy of /repo: existing suite passes with the change; demo_test.go (TestSeededDemo) fails with the change and passes without it; then git apply to /repo, ./check %s quick, git checkout' % prop,
 changed_files=sorted(set(l[6:].strip() for l in open(d+'/patch.diff') if l.startswith('+++ b/'))),
 check_output=open(d+'/check_output.txt').read().strip().splitlines()[:3] if os.path.exists(d+'/check_output.txt') else [])
if len(sys.argv)>6: m['strengthening']=sys.argv[6]
json.dump(m,open(d+'/meta.json','w'),indent=1)
