#!/usr/bin/env python3
"""Re-create a must-fail mutant on the current tree of /repo.

usage: port.py <mutant-name> <edits.json>

edits.json is a list of [file-relative-to-/repo, old-text, new-text]; every
old-text must occur exactly once. The edits are made on a scratch copy of
/repo (outside /repo and /verif, removed afterwards), the result must build,
and the diff replaces selftest/mutants/<mutant-name>.patch, keeping the two
header lines ("# must-fail mutant: ..." / "# expect: <prop> <substring>") of
the existing patch. Used when a fix: commit changed the code an older mutant
or seeded patch was written against, so that it no longer applies.
"""
import json
import os
import shutil
import subprocess
import sys
import tempfile

name, ej = sys.argv[1:3]
edits = json.load(open(ej))
pf = '/verif/selftest/mutants/%s.patch' % name
hdr = ''.join(open(pf).readlines()[:2])
S = tempfile.mkdtemp(prefix='port.', dir=os.environ.get('TMPDIR', '/tmp'))
try:
    subprocess.check_call(['rsync', '-a', '--exclude', '.git', '/repo/', S + '/repo/'])
    for f, old, new in edits:
        p = S + '/repo/' + f
        s = open(p).read()
        assert s.count(old) == 1, (f, old[:50], s.count(old))
        open(p, 'w').write(s.replace(old, new))
    env = dict(os.environ, GOFLAGS='-mod=mod', GOPROXY='off', GOSUMDB='off', GOTOOLCHAIN='local')
    subprocess.check_call(['go', 'build', './...'], cwd=S + '/repo', env=env)
    out = subprocess.run(['diff', '-ru', '-x', '.git', '/repo', '.'], cwd=S + '/repo',
                         capture_output=True, text=True).stdout
    lines = []
    for l in out.splitlines(True):
        if l.startswith('Only in') or l.startswith('diff -ru'):
            continue
        if l.startswith('--- /repo/'):
            l = '--- a/' + l[len('--- /repo/'):]
        if l.startswith('+++ ./'):
            l = '+++ b/' + l[len('+++ ./'):]
        lines.append(l)
    open(pf, 'w').write(hdr + ''.join(lines))
    print('ported', name)
finally:
    shutil.rmtree(S, ignore_errors=True)
