package main

import (
	"go/constant"
	"fmt"
	"go/token"
	"go/types"
	"strings"

	"golang.org/x/tools/go/ssa"
)

func (f *Frame) allocRef(hint string) string {
	e := f.e
	av := e.S.allocVar()
	cur := e.hget(f.heap, av)
	r := e.define(hint, "Int", cur)
	e.assert(fmt.Sprintf("(> %s 0)", r))
	e.hset(f.heap, av, fmt.Sprintf("(+ %s 1)", cur))
	if f.curBlock != nil {
		n := 0
		for i := len(f.allocRecs) - 1; i >= 0 && n < 6; i-- {
			rec := f.allocRecs[i]
			if rec.blk == f.curBlock || rec.blk.Dominates(f.curBlock) {
				e.assert(fmt.Sprintf("(< %s %s)", rec.term, r))
				n++
			}
		}
		f.allocRecs = append(f.allocRecs, allocRec{f.curBlock, r})
	}
	return r
}

func (f *Frame) instr(ins ssa.Instruction) {
	e := f.e
	switch x := ins.(type) {
	case *ssa.DebugRef:
	case *ssa.Alloc:
		r := f.allocRef("alloc")
		et := x.Type().(*types.Pointer).Elem()
		l := &Loc{Kind: locCell, T: et, Ptr: r}
		e.store(f.heap, l, e.S.zero(et))
		f.vals[x] = Val{T: r}
		f.zeroGhostFields(et, r)
		if !escapes(x, map[ssa.Value]bool{}) {
			f.private = append(f.private, l)
			f.privateAllocs = append(f.privateAllocs, x)
		}
	case *ssa.BinOp:
		f.binop(x)
	case *ssa.UnOp:
		f.unop(x)
	case *ssa.Call:
		v := f.call(x, &x.Call, x.Pos())
		f.bind(x, v)
	case *ssa.ChangeType:
		f.vals[x] = f.get(x.X)
	case *ssa.ChangeInterface:
		f.vals[x] = Val{T: f.get(x.X).T}
	case *ssa.Convert:
		f.convert(x)
	case *ssa.MultiConvert:
		f.bind(x, f.havocVal(x.Type(), "mconv"))
	case *ssa.MakeInterface:
		t := x.X.Type()
		tag := e.S.tagOf(t)
		v := f.get(x.X)
		so := e.S.sortOf(t)
		if _, isPtr := t.Underlying().(*types.Pointer); isPtr && isCallResult(x.X) && f.top && e.con != nil && !e.con.SafetyOff["typednil"] && f.inRepoPointer(t) {
			// the engine assumes that interfaces never hold typed-nil pointers; that is
			// checked where a pointer returned by a call (a lookup that may find nothing)
			// becomes an interface value; pointers read from the AST are covered by the
			// assumption. Not switched off by a plain `nosafety`.
			e.addObl("typednil", f.exprText(x.X), f.curReach, fmt.Sprintf("(not (= %s 0))", v.T), x.Pos(), "a pointer converted to an interface value is not nil", append([]string{"C06"}, f.props()...))
		}
		if so == "Int" {
			f.def(x, fmt.Sprintf("(mk_iface %d %s)", tag, v.T))
		} else {
			box := e.fresh("box")
			if e.orderMode {
				// order check: boxing the same value yields the same interface value in either order
				sym := fmt.Sprintf("boxof!%d", tag)
				e.S.declare(sym, fmt.Sprintf("(declare-fun %s (%s) Int)", q(sym), so))
				box = e.define("box", "Int", fmt.Sprintf("(%s %s)", q(sym), v.T))
			} else {
				e.decl(box, "Int")
			}
			e.assert(fmt.Sprintf("(= (%s %s) %s)", e.S.unboxFn(t), box, v.T))
			f.def(x, fmt.Sprintf("(mk_iface %d %s)", tag, box))
		}
	case *ssa.TypeAssert:
		f.typeAssert(x)
	case *ssa.Extract:
		tv := f.get(x.Tuple)
		if x.Index < len(tv.Tuple) {
			f.vals[x] = tv.Tuple[x.Index]
		} else {
			f.bind(x, f.havocVal(x.Type(), "extract"))
		}
	case *ssa.Field:
		v := f.get(x.X)
		f.def(x, fmt.Sprintf("(%s %s)", e.S.fieldAccessor(x.X.Type(), x.Field), v.T))
		e.taintField(x.X.Type(), x.Field, f.vals[x].T)
	case *ssa.FieldAddr:
		base := f.get(x.X)
		pt := x.X.Type().Underlying().(*types.Pointer)
		var parent *Loc
		if base.Loc != nil {
			parent = base.Loc
		} else {
			if !knownNonNil(x.X) {
				f.safety("nil", f.exprText(x.X)+"."+fieldName(pt.Elem(), x.Field), fmt.Sprintf("(not (= %s 0))", base.T), x.Pos())
			}
			parent = &Loc{Kind: locCell, T: pt.Elem(), Ptr: base.T}
		}
		_, st := structKey(pt.Elem())
		f.defLoc(x, &Loc{Kind: locField, T: st.Field(x.Field).Type(), Parent: parent, Field: x.Field}, "0")
	case *ssa.IndexAddr:
		f.indexAddr(x)
	case *ssa.Index:
		f.index(x)
	case *ssa.Lookup:
		f.lookup(x)
	case *ssa.MapUpdate:
		f.mapUpdate(x)
	case *ssa.MakeMap:
		r := f.allocRef("map")
		mt := x.Type().Underlying().(*types.Map)
		dv := e.S.mapDomVar(mt)
		ksort := e.S.sortOf(mt.Key())
		e.hset(f.heap, dv, fmt.Sprintf("(store %s %s ((as const (Array %s Bool)) false))", e.hget(f.heap, dv), r, ksort))
		e.hset(f.heap, e.S.mapLenVar(), fmt.Sprintf("(store %s %s 0)", e.hget(f.heap, e.S.mapLenVar()), r))
		e.S.mapVar(mt)
		f.def(x, r)
	case *ssa.MakeSlice:
		r := f.allocRef("mkslice")
		st := x.Type().Underlying().(*types.Slice)
		ln, cp := f.get(x.Len).T, f.get(x.Cap).T
		ev := e.S.elemVar(st.Elem())
		e.hset(f.heap, ev, fmt.Sprintf("(store %s %s ((as const (Array Int %s)) %s))", e.hget(f.heap, ev), r, e.S.sortOf(st.Elem()), constTerm(e.S.zero(st.Elem()))))
		f.safety("makeslice", f.exprText(x), fmt.Sprintf("(and (<= 0 %s) (<= %s %s))", ln, ln, cp), x.Pos())
		f.def(x, fmt.Sprintf("(mk_slice %s 0 %s %s)", r, ln, cp))
	case *ssa.MakeChan:
		f.def(x, f.allocRef("chan"))
	case *ssa.MakeClosure:
		r := f.allocRef("closure")
		fn := x.Fn.(*ssa.Function)
		e.assert(fmt.Sprintf("(= (fncode %s) (fncode %s))", r, e.fnId(fn)))
		f.def(x, r)
	case *ssa.Slice:
		f.slice(x)
	case *ssa.SliceToArrayPointer:
		f.bind(x, f.havocVal(x.Type(), "s2ap"))
	case *ssa.Range:
		r := f.allocRef("iter")
		iv := e.S.iterVar()
		e.hset(f.heap, iv, fmt.Sprintf("(store %s %s 0)", e.hget(f.heap, iv), r))
		f.def(x, r)
	case *ssa.Next:
		f.next(x)
	case *ssa.Store:
		l := f.locOf(x.Addr)
		v := f.get(x.Val)
		if l == nil {
			e.unsupp("store through untracked pointer")
			return
		}
		if l.Kind == locCell && !knownNonNil(x.Addr) {
			f.safety("nil", "*"+f.exprText(x.Addr), fmt.Sprintf("(not (= %s 0))", l.Ptr), x.Pos())
		}
		if sk, ok := f.siteKeys[x]; ok && f.top {
			f.curArgTypes = []types.Type{x.Val.Type(), tInt}
			args := []Val{v, {T: "0"}}
			if ia, ok := x.Addr.(*ssa.IndexAddr); ok {
				args[1] = f.get(ia.Index)
			}
			f.storeHooks(sk, args)
		}
		e.store(f.heap, l, v.T)
	case *ssa.Send:
		f.curArgTypes = []types.Type{x.Chan.Type(), x.X.Type()}
		f.ghostAt("send", []Val{f.get(x.Chan), f.get(x.X)}, Val{}, false)
	case *ssa.Go:
		e.note("go statement: the started goroutine is not modelled (sequential contract of its body is verified separately)")
	case *ssa.Defer:
		f.defers = append(f.defers, x)
		if f.top && e.con != nil && e.con.RecoverBy != "" && f.siteKeys[x] != "" && strings.HasPrefix(f.siteKeys[x], e.con.RecoverBy+"#") {
			// from here on every panic is caught by the handler: runtime panics are
			// permitted exits (they become the error result)
			f.recovered = true
			e.note("panics raised after the deferred " + e.con.RecoverBy + " are converted to the error result (handler verified separately)")
		}
	case *ssa.RunDefers:
		f.runDefers(x.Pos())
	case *ssa.Panic:
		f.curArgTypes = []types.Type{x.X.Type()}
		f.ghostAt("panic", []Val{f.get(x.X)}, Val{}, false)
		f.panicExit(x.Pos(), "panic")
	case *ssa.Return:
		f.ret(x)
	case *ssa.If, *ssa.Jump:
	case *ssa.Select:
		e.unsupp("select statement")
		f.bind(x, f.havocVal(x.Type(), "select"))
	default:
		e.unsupp(fmt.Sprintf("instruction %T", ins))
		if v, ok := ins.(ssa.Value); ok {
			f.bind(v, f.havocVal(v.Type(), "unsupp"))
		}
	}
}

func fieldName(t types.Type, i int) string {
	_, st := structKey(t)
	if st == nil {
		return fmt.Sprint(i)
	}
	return st.Field(i).Name()
}

// bind stores a Val (possibly a tuple) for an SSA value, naming scalars.
func (f *Frame) bind(v ssa.Value, x Val) {
	if x.Tuple != nil || x.Loc != nil {
		f.vals[v] = x
		return
	}
	if x.T == "" {
		f.vals[v] = Val{T: "0"}
		return
	}
	if _, isT := v.Type().(*types.Tuple); isT {
		f.vals[v] = x
		return
	}
	f.def(v, x.T)
}

func (f *Frame) binop(x *ssa.BinOp) {
	e := f.e
	a, b := f.get(x.X).T, f.get(x.Y).T
	t := x.X.Type()
	if isFloat(t) {
		var r string
		switch x.Op {
		case token.ADD:
			r = e.fop("add", a, b)
		case token.SUB:
			r = e.fop("sub", a, b)
		case token.MUL:
			r = e.fop("mul", a, b)
		case token.QUO:
			r = e.fop("div", a, b)
		case token.EQL:
			r = e.fop("eq", a, b)
		case token.NEQ:
			r = "(not " + e.fop("eq", a, b) + ")"
		case token.LSS:
			r = e.fop("lt", a, b)
		case token.LEQ:
			r = e.fop("leq", a, b)
		case token.GTR:
			r = e.fop("gt", a, b)
		case token.GEQ:
			r = e.fop("geq", a, b)
		}
		if r == "" {
			f.bind(x, f.havocVal(x.Type(), "fop"))
			return
		}
		f.def(x, r)
		return
	}
	if isString(t) {
		switch x.Op {
		case token.ADD:
			n := f.vname(x)
			e.decl(n, "Str")
			e.assert(fmt.Sprintf("(= %s (str_cat %s %s))", n, a, b))
			e.assert(fmt.Sprintf("(and (= (s_off %s) 0) (= (s_len %s) (+ (s_len %s) (s_len %s))))", n, n, a, b))
			for _, t := range e.taints() {
				e.assert(fmt.Sprintf("(=> (and %s %s) %s)", e.taintApp(t, a), e.taintApp(t, b), e.taintApp(t, n)))
			}
			if e.con != nil && e.con.StringsExact {
				e.assert(fmt.Sprintf("(forall ((k Int)) (=> (and (<= 0 k) (< k (s_len %s))) (= (select (s_arr %s) k) (str_at %s k))))", a, n, a))
				e.assert(fmt.Sprintf("(forall ((k Int)) (=> (and (<= 0 k) (< k (s_len %s))) (= (select (s_arr %s) (+ (s_len %s) k)) (str_at %s k))))", b, n, a, b))
			} else {
				e.note("string concatenation: only the length of the result is modelled")
			}
			f.vals[x] = Val{T: n}
			return
		case token.EQL:
			f.def(x, e.strEq(a, b))
			return
		case token.NEQ:
			f.def(x, not(e.strEq(a, b)))
			return
		default:
			f.bind(x, f.havocVal(x.Type(), "strcmp"))
			return
		}
	}
	if bt, ok := t.Underlying().(*types.Basic); ok && bt.Info()&types.IsBoolean != 0 {
		switch x.Op {
		case token.EQL:
			f.def(x, fmt.Sprintf("(= %s %s)", a, b))
		case token.NEQ:
			f.def(x, fmt.Sprintf("(not (= %s %s))", a, b))
		case token.AND, token.LAND:
			f.def(x, and(a, b))
		case token.OR, token.LOR:
			f.def(x, or(a, b))
		default:
			f.bind(x, f.havocVal(x.Type(), "bop"))
		}
		return
	}
	if isIntType(t) {
		var r string
		switch x.Op {
		case token.ADD:
			r = fmt.Sprintf("(+ %s %s)", a, b)
		case token.SUB:
			r = fmt.Sprintf("(- %s %s)", a, b)
		case token.MUL:
			r = fmt.Sprintf("(* %s %s)", a, b)
		case token.QUO:
			f.safety("div", f.exprText(x), fmt.Sprintf("(not (= %s 0))", b), x.Pos())
			r = fmt.Sprintf("(godiv %s %s)", a, b)
		case token.REM:
			f.safety("div", f.exprText(x), fmt.Sprintf("(not (= %s 0))", b), x.Pos())
			r = fmt.Sprintf("(gomod %s %s)", a, b)
		case token.AND:
			r = fmt.Sprintf("(bit_and %s %s)", a, b)
		case token.OR:
			r = fmt.Sprintf("(bit_or %s %s)", a, b)
		case token.XOR:
			r = fmt.Sprintf("(bit_xor %s %s)", a, b)
		case token.SHL:
			r = fmt.Sprintf("(bit_shl %s %s)", a, b)
		case token.SHR:
			r = fmt.Sprintf("(bit_shr %s %s)", a, b)
		case token.AND_NOT:
			r = fmt.Sprintf("(bit_andnot %s %s)", a, b)
		case token.EQL:
			r = fmt.Sprintf("(= %s %s)", a, b)
		case token.NEQ:
			r = fmt.Sprintf("(not (= %s %s))", a, b)
		case token.LSS:
			r = fmt.Sprintf("(< %s %s)", a, b)
		case token.LEQ:
			r = fmt.Sprintf("(<= %s %s)", a, b)
		case token.GTR:
			r = fmt.Sprintf("(> %s %s)", a, b)
		case token.GEQ:
			r = fmt.Sprintf("(>= %s %s)", a, b)
		}
		f.def(x, r)
		if x.Op == token.AND || x.Op == token.SHR || x.Op == token.OR || x.Op == token.XOR || x.Op == token.SHL || x.Op == token.AND_NOT {
			e.note("bit operations are uninterpreted (machine arithmetic is not modelled)")
			e.assumeWF("", f.vals[x].T, x.Type())
			// x & c with a non-negative constant c never exceeds c (true of the machine
			// operation whatever the other operand is)
			if x.Op == token.AND {
				for _, side := range []ssa.Value{x.X, x.Y} {
					if c, ok := side.(*ssa.Const); ok && c.Value != nil && c.Value.Kind() == constant.Int && constant.Sign(c.Value) >= 0 {
						e.assert(fmt.Sprintf("(and (<= 0 %s) (<= %s %s))", f.vals[x].T, f.vals[x].T, c.Value.ExactString()))
					}
				}
			}
		}
		return
	}
	// pointers, interfaces, slices vs nil, etc.
	switch x.Op {
	case token.EQL, token.NEQ:
		var r string
		switch t.Underlying().(type) {
		case *types.Interface:
			// comparing interfaces: identity of (tag, payload); boxed payloads compare by box identity (incomplete but sound for nil tests)
			if isNilConst(x.Y) {
				r = fmt.Sprintf("(= (i_tag %s) 0)", a)
			} else if isNilConst(x.X) {
				r = fmt.Sprintf("(= (i_tag %s) 0)", b)
			} else if mi, ok := x.Y.(*ssa.MakeInterface); ok && isEmptyStruct(mi.X.Type()) {
				// comparison with a value of an empty struct type: equal iff same dynamic type
				r = fmt.Sprintf("(= (i_tag %s) %d)", a, e.S.tagOf(mi.X.Type()))
			} else if mi, ok := x.X.(*ssa.MakeInterface); ok && isEmptyStruct(mi.X.Type()) {
				r = fmt.Sprintf("(= (i_tag %s) %d)", b, e.S.tagOf(mi.X.Type()))
			} else {
				hv := f.havocVal(types.Typ[types.Bool], "ifaceeq")
				e.assert(fmt.Sprintf("(=> (= %s %s) %s)", a, b, hv.T))
				e.assert(fmt.Sprintf("(=> (not (= (i_tag %s) (i_tag %s))) (not %s))", a, b, hv.T))
				r = hv.T
			}
		case *types.Slice:
			if isNilConst(x.Y) {
				r = fmt.Sprintf("(= (sl_base %s) 0)", a)
			} else {
				r = fmt.Sprintf("(= (sl_base %s) 0)", b)
			}
		default:
			r = fmt.Sprintf("(= %s %s)", a, b)
		}
		if x.Op == token.NEQ {
			r = not(r)
		}
		f.def(x, r)
	default:
		f.bind(x, f.havocVal(x.Type(), "binop"))
	}
}

func isNilConst(v ssa.Value) bool {
	c, ok := v.(*ssa.Const)
	return ok && c.Value == nil
}

func (f *Frame) unop(x *ssa.UnOp) {
	e := f.e
	switch x.Op {
	case token.NOT:
		f.def(x, not(f.get(x.X).T))
	case token.SUB:
		if isFloat(x.Type()) {
			f.def(x, e.fop("neg", f.get(x.X).T))
		} else {
			f.def(x, "(- "+f.get(x.X).T+")")
		}
	case token.MUL:
		l := f.locOf(x.X)
		if l == nil {
			e.unsupp("load through untracked pointer")
			f.bind(x, f.havocVal(x.Type(), "load"))
			return
		}
		if l.Kind == locCell && !knownNonNil(x.X) {
			f.safety("nil", "*"+f.exprText(x.X), fmt.Sprintf("(not (= %s 0))", l.Ptr), x.Pos())
		}
		f.def(x, e.load(f.heap, l))
		e.assumeWF("", f.vals[x].T, x.Type())
		f.assumeAllocated(f.vals[x].T, x.Type(), 0)
		if fa, ok := x.X.(*ssa.FieldAddr); ok {
			if pt, ok := fa.X.Type().Underlying().(*types.Pointer); ok {
				e.taintField(pt.Elem(), fa.Field, f.vals[x].T)
			}
		}
	case token.ARROW:
		f.bind(x, f.havocVal(x.Type(), "recv"))
		f.ghostAt("recv", nil, f.vals[x], true)
	case token.XOR:
		f.bind(x, f.havocVal(x.Type(), "compl"))
	default:
		f.bind(x, f.havocVal(x.Type(), "unop"))
	}
}

func (f *Frame) convert(x *ssa.Convert) {
	e := f.e
	from, to := x.X.Type(), x.Type()
	v := f.get(x.X)
	switch {
	case isIntType(from) && isIntType(to):
		// mathematical integers: identity, but narrowing to an unsigned byte is bounded
		fb := from.Underlying().(*types.Basic)
		tb := to.Underlying().(*types.Basic)
		if tb.Kind() == types.Uint8 && fb.Kind() != types.Uint8 {
			n := f.vname(x)
			e.decl(n, "Int")
			e.assert(fmt.Sprintf("(and (<= 0 %s) (<= %s 255) (=> (and (<= 0 %s) (<= %s 255)) (= %s %s)))", n, n, v.T, v.T, n, v.T))
			f.vals[x] = Val{T: n}
			e.note("integer narrowing to byte: exact only when the operand is in range")
			return
		}
		f.vals[x] = Val{T: v.T}
	case isIntType(from) && isFloat(to):
		f.def(x, e.fop("i2f", v.T))
	case isFloat(from) && isIntType(to):
		f.def(x, e.fop("f2i", v.T))
		e.note("float->int conversion of NaN/Inf/out-of-range values is implementation-defined in Go; modelled as to_int of the truncated real")
	case isFloat(from) && isFloat(to):
		f.vals[x] = Val{T: v.T}
	case isString(from) && isString(to):
		f.vals[x] = Val{T: v.T}
	case isString(to) && isIntType(from):
		// string(rune): 1..4 bytes
		n := f.vname(x)
		e.decl(n, "Str")
		e.assert(fmt.Sprintf("(and (= (s_off %s) 0) (<= 1 (s_len %s)) (<= (s_len %s) 4))", n, n, n))
		e.assert(fmt.Sprintf("(=> (and (<= 0 %s) (< %s 128)) (and (= (s_len %s) 1) (= (select (s_arr %s) 0) %s)))", v.T, v.T, n, n, v.T))
		f.vals[x] = Val{T: n}
	case isString(to):
		// string([]byte): same length, same bytes
		if sl, ok := from.Underlying().(*types.Slice); ok && e.S.sortOf(sl.Elem()) == "Int" {
			n := f.vname(x)
			e.decl(n, "Str")
			if b, ok := sl.Elem().Underlying().(*types.Basic); ok && b.Kind() == types.Uint8 {
				arr := fmt.Sprintf("(select %s (sl_base %s))", e.hget(f.heap, e.S.elemVar(sl.Elem())), v.T)
				e.assert(fmt.Sprintf("(and (= (s_off %s) 0) (= (s_len %s) (sl_len %s)))", n, n, v.T))
				if e.con == nil || e.con.StringsExact || !e.con.NoConvContents {
					e.assert(fmt.Sprintf("(forall ((k Int)) (=> (and (<= 0 k) (< k (s_len %s))) (= (select (s_arr %s) k) (select %s (+ (sl_off %s) k)))))", n, n, arr, v.T))
				} else {
					e.note("string([]byte) conversions: only the length of the result is modelled (noconvcontents)")
				}
			} else {
				e.assert(fmt.Sprintf("(and (= (s_off %s) 0) (<= 0 (s_len %s)))", n, n))
			}
			f.vals[x] = Val{T: n}
			return
		}
		f.bind(x, f.havocVal(to, "conv"))
	case isString(from):
		// []byte(s) / []rune(s)
		if sl, ok := to.Underlying().(*types.Slice); ok {
			r := f.allocRef("bytes")
			if b, ok := sl.Elem().Underlying().(*types.Basic); ok && b.Kind() == types.Uint8 {
				ev := e.S.elemVar(sl.Elem())
				arr := e.fresh("bytesarr")
				e.decl(arr, "(Array Int Int)")
				e.assert(fmt.Sprintf("(forall ((k Int)) (=> (and (<= 0 k) (< k (s_len %s))) (= (select %s k) (str_at %s k))))", v.T, arr, v.T))
				e.hset(f.heap, ev, fmt.Sprintf("(store %s %s %s)", e.hget(f.heap, ev), r, arr))
				f.def(x, fmt.Sprintf("(mk_slice %s 0 (s_len %s) (s_len %s))", r, v.T, v.T))
				return
			}
			ln := f.havocVal(types.Typ[types.Int], "runelen")
			e.assert(fmt.Sprintf("(and (<= 0 %s) (<= %s (s_len %s)))", ln.T, ln.T, v.T))
			e.S.elemVar(sl.Elem())
			f.def(x, fmt.Sprintf("(mk_slice %s 0 %s %s)", r, ln.T, ln.T))
			return
		}
		f.bind(x, f.havocVal(to, "conv"))
	default:
		if e.S.sortOf(from) == e.S.sortOf(to) {
			f.vals[x] = Val{T: v.T}
		} else {
			f.bind(x, f.havocVal(to, "conv"))
		}
	}
}

func (f *Frame) typeAssert(x *ssa.TypeAssert) {
	e := f.e
	v := f.get(x.X)
	var ok, val string
	if _, isI := x.AssertedType.Underlying().(*types.Interface); isI {
		I := x.AssertedType.Underlying().(*types.Interface)
		e.ifaces[typeKey(x.AssertedType)] = I
		pred := e.S.implementsPred(x.AssertedType)
		ok = fmt.Sprintf("(%s (i_tag %s))", pred, v.T)
		if I.NumMethods() == 0 {
			ok = fmt.Sprintf("(not (= (i_tag %s) 0))", v.T)
		}
		val = v.T
	} else {
		tag := e.S.tagOf(x.AssertedType)
		ok = fmt.Sprintf("(= (i_tag %s) %d)", v.T, tag)
		val = e.unboxTerm(v.T, x.AssertedType)
	}
	if _, isPtr := x.AssertedType.Underlying().(*types.Pointer); isPtr {
		// data-structure invariant of this code base: interfaces (AST nodes, values)
		// never hold typed-nil pointers
		e.assumeAt(f.curReach, fmt.Sprintf("(=> %s (not (= %s 0)))", ok, val))
		e.note("interfaces are assumed never to hold typed-nil pointers (nodes and values are built from non-nil objects)")
	}
	if x.CommaOk {
		okn := e.define("taok", "Bool", ok)
		vn := e.define("taval", e.S.sortOf(x.AssertedType), fmt.Sprintf("(ite %s %s %s)", okn, val, e.S.zero(x.AssertedType)))
		e.assumeWF(okn, vn, x.AssertedType)
		f.vals[x] = Val{Tuple: []Val{{T: vn}, {T: okn}}}
		return
	}
	f.safety("assert", f.exprText(x.X)+".("+types.TypeString(x.AssertedType, types.RelativeTo(f.fn.Pkg.Pkg))+")", ok, x.Pos())
	f.def(x, val)
	e.assumeWF("", f.vals[x].T, x.AssertedType)
}

func (f *Frame) indexAddr(x *ssa.IndexAddr) {
	e := f.e
	idx := f.get(x.Index).T
	switch u := x.X.Type().Underlying().(type) {
	case *types.Slice:
		s := f.get(x.X).T
		f.safety("idx", f.exprText(x.X)+"["+f.exprText(x.Index)+"]", fmt.Sprintf("(and (<= 0 %s) (< %s (sl_len %s)))", idx, idx, s), x.Pos())
		f.defLoc(x, &Loc{Kind: locElem, T: u.Elem(), Base: "(sl_base " + s + ")", Index: fmt.Sprintf("(+ (sl_off %s) %s)", s, idx)}, "0")
	case *types.Pointer: // *[N]T
		at := u.Elem().Underlying().(*types.Array)
		base := f.get(x.X)
		f.safety("idx", f.exprText(x.X)+"["+f.exprText(x.Index)+"]", fmt.Sprintf("(and (<= 0 %s) (< %s %d))", idx, idx, at.Len()), x.Pos())
		if base.Loc != nil {
			f.defLoc(x, &Loc{Kind: locArrIdx, T: at.Elem(), Parent: base.Loc, Index: idx}, "0")
		} else {
			f.defLoc(x, &Loc{Kind: locElem, T: at.Elem(), Base: base.T, Index: idx}, "0")
		}
	default:
		e.unsupp("IndexAddr on " + x.X.Type().String())
		f.bind(x, f.havocVal(x.Type(), "idxaddr"))
	}
}

func (f *Frame) index(x *ssa.Index) {
	e := f.e
	idx := f.get(x.Index).T
	v := f.get(x.X).T
	switch u := x.X.Type().Underlying().(type) {
	case *types.Basic: // string
		f.safety("idx", f.exprText(x.X)+"["+f.exprText(x.Index)+"]", fmt.Sprintf("(and (<= 0 %s) (< %s (s_len %s)))", idx, idx, v), x.Pos())
		f.def(x, fmt.Sprintf("(str_at %s %s)", v, idx))
		e.assumeWF("", f.vals[x].T, x.Type())
	case *types.Array:
		f.safety("idx", f.exprText(x.X)+"["+f.exprText(x.Index)+"]", fmt.Sprintf("(and (<= 0 %s) (< %s %d))", idx, idx, u.Len()), x.Pos())
		f.def(x, fmt.Sprintf("(select %s %s)", v, idx))
	default:
		f.bind(x, f.havocVal(x.Type(), "index"))
	}
}

func (f *Frame) lookup(x *ssa.Lookup) {
	e := f.e
	m := f.get(x.X).T
	k := f.get(x.Index).T
	switch u := x.X.Type().Underlying().(type) {
	case *types.Basic: // string index s[i]
		f.safety("idx", f.exprText(x.X)+"["+f.exprText(x.Index)+"]", fmt.Sprintf("(and (<= 0 %s) (< %s (s_len %s)))", k, k, m), x.Pos())
		f.def(x, fmt.Sprintf("(str_at %s %s)", m, k))
		e.assumeWF("", f.vals[x].T, x.Type())
	case *types.Map:
		kk := k
		if isString(u.Key()) {
			e.note("map keys of string type are compared by representation (same bytes => same key is not derived); lookups of constants in tables are exact")
		}
		in := fmt.Sprintf("(select (select %s %s) %s)", e.hget(f.heap, e.S.mapDomVar(u)), m, kk)
		val := fmt.Sprintf("(select (select %s %s) %s)", e.hget(f.heap, e.S.mapVar(u)), m, kk)
		okn := e.define("mapok", "Bool", in)
		vn := e.define("mapval", e.S.sortOf(u.Elem()), fmt.Sprintf("(ite %s %s %s)", okn, val, e.S.zero(u.Elem())))
		e.assumeWF("", vn, u.Elem())
		if x.CommaOk {
			f.vals[x] = Val{Tuple: []Val{{T: vn}, {T: okn}}}
		} else {
			f.vals[x] = Val{T: vn}
		}
	default:
		f.bind(x, f.havocVal(x.Type(), "lookup"))
	}
}

func (f *Frame) mapUpdate(x *ssa.MapUpdate) {
	e := f.e
	m := f.get(x.Map).T
	k := f.get(x.Key).T
	v := f.get(x.Value).T
	mt := x.Map.Type().Underlying().(*types.Map)
	f.safety("nilmap", f.exprText(x.Map), fmt.Sprintf("(not (= %s 0))", m), x.Pos())
	if sk, ok := f.siteKeys[x]; ok && f.top {
		// `at call mapupdate#k ...` ghost statements with m / key / val bound
		f.curArgTypes = []types.Type{x.Map.Type(), x.Key.Type(), x.Value.Type()}
		f.ghostHooksNamed(sk, []Val{f.get(x.Map), f.get(x.Key), f.get(x.Value)}, Val{}, false, []string{"m", "key", "val"})
	}
	if e.con != nil && e.con.MapWrites != "" && !e.dry {
		// write confinement for maps: the written map satisfies the declared predicate
		env := f.specEnv(f.heap, nil, nil)
		env.names["__m"] = specVal{v: Val{T: m}, t: x.Map.Type()}
		if ex, err := parseSpecExpr(e.con.MapWrites + "(__m)"); err == nil {
			if t, err := env.evalBool(ex); err == nil {
				name := f.exprText(x.Map)
				if !f.top {
					name = "in:" + e.P.fnDisplay(f.fn) + ":" + name
				}
				e.addObl("mapwrite", name, f.curReach, t, x.Pos(), e.con.MapWrites+"(written map)", f.props())
			} else {
				e.unsupp("mapwrites: " + err.Error())
			}
		}
	}
	mv, dv, lv := e.S.mapVar(mt), e.S.mapDomVar(mt), e.S.mapLenVar()
	curM, curD, curL := e.hget(f.heap, mv), e.hget(f.heap, dv), e.hget(f.heap, lv)
	e.hset(f.heap, lv, fmt.Sprintf("(store %s %s (ite (select (select %s %s) %s) (select %s %s) (+ (select %s %s) 1)))", curL, m, curD, m, k, curL, m, curL, m))
	e.hset(f.heap, mv, fmt.Sprintf("(store %s %s (store (select %s %s) %s %s))", curM, m, curM, m, k, v))
	e.hset(f.heap, dv, fmt.Sprintf("(store %s %s (store (select %s %s) %s true))", curD, m, curD, m, k))
}

func (f *Frame) slice(x *ssa.Slice) {
	e := f.e
	v := f.get(x.X)
	lo := "0"
	if x.Low != nil {
		lo = f.get(x.Low).T
	}
	switch u := x.X.Type().Underlying().(type) {
	case *types.Basic: // string
		hi := "(s_len " + v.T + ")"
		if x.High != nil {
			hi = f.get(x.High).T
		}
		f.safety("slice", f.sliceText(x), fmt.Sprintf("(and (<= 0 %s) (<= %s %s) (<= %s (s_len %s)))", lo, lo, hi, hi, v.T), x.Pos())
		f.def(x, fmt.Sprintf("(mk_str (s_arr %s) (+ (s_off %s) %s) (- %s %s))", v.T, v.T, lo, hi, lo))
		for _, t := range e.taints() {
			e.assert(fmt.Sprintf("(=> %s %s)", e.taintApp(t, v.T), e.taintApp(t, f.vals[x].T)))
		}
	case *types.Slice:
		hi := "(sl_len " + v.T + ")"
		if x.High != nil {
			hi = f.get(x.High).T
		}
		mx := "(sl_cap " + v.T + ")"
		capT := fmt.Sprintf("(- (sl_cap %s) %s)", v.T, lo)
		if x.Max != nil {
			m := f.get(x.Max).T
			capT = fmt.Sprintf("(- %s %s)", m, lo)
			f.safety("slice", f.sliceText(x), fmt.Sprintf("(and (<= 0 %s) (<= %s %s) (<= %s %s) (<= %s %s))", lo, lo, hi, hi, m, m, mx), x.Pos())
		} else {
			f.safety("slice", f.sliceText(x), fmt.Sprintf("(and (<= 0 %s) (<= %s %s) (<= %s %s))", lo, lo, hi, hi, mx), x.Pos())
		}
		f.def(x, fmt.Sprintf("(mk_slice (sl_base %s) (+ (sl_off %s) %s) (- %s %s) %s)", v.T, v.T, lo, hi, lo, capT))
	case *types.Pointer: // *[N]T
		at := u.Elem().Underlying().(*types.Array)
		hi := fmt.Sprint(at.Len())
		if x.High != nil {
			hi = f.get(x.High).T
		}
		f.safety("slice", f.sliceText(x), fmt.Sprintf("(and (<= 0 %s) (<= %s %s) (<= %s %d))", lo, lo, hi, hi, at.Len()), x.Pos())
		e.S.elemVar(at.Elem())
		f.def(x, fmt.Sprintf("(mk_slice %s %s (- %s %s) (- %d %s))", v.T, lo, hi, lo, at.Len(), lo))
	default:
		f.bind(x, f.havocVal(x.Type(), "slice"))
	}
}

func (f *Frame) sliceText(x *ssa.Slice) string {
	s := f.exprText(x.X) + "["
	if x.Low != nil {
		s += f.exprText(x.Low)
	}
	s += ":"
	if x.High != nil {
		s += f.exprText(x.High)
	}
	return s + "]"
}

func (f *Frame) next(x *ssa.Next) {
	e := f.e
	it := f.get(x.Iter).T
	iv := e.S.iterVar()
	pos := e.define("itpos", "Int", fmt.Sprintf("(select %s %s)", e.hget(f.heap, iv), it))
	rng := x.Iter.(*ssa.Range)
	coll := f.get(rng.X).T
	if x.IsString {
		ok := e.define("itok", "Bool", fmt.Sprintf("(< %s (s_len %s))", pos, coll))
		w := f.havocVal(types.Typ[types.Int], "itw")
		r := f.havocVal(types.Typ[types.Rune], "itr")
		e.assert(fmt.Sprintf("(=> %s (and (<= 1 %s) (<= %s 4) (<= (+ %s %s) (s_len %s)) (<= 0 %s) (<= %s 1114111)))", ok, w.T, w.T, pos, w.T, coll, r.T, r.T))
		e.assert(fmt.Sprintf("(=> (and %s (< (str_at %s %s) 128)) (and (= %s 1) (= %s (str_at %s %s))))", ok, coll, pos, w.T, r.T, coll, pos))
		e.assert(fmt.Sprintf("(=> (and %s (>= (str_at %s %s) 128)) (>= %s 128))", ok, coll, pos, r.T))
		e.assert(fmt.Sprintf("(>= %s 0)", pos))
		e.hset(f.heap, iv, fmt.Sprintf("(store %s %s (ite %s (+ %s %s) %s))", e.hget(f.heap, iv), it, ok, pos, w.T, pos))
		f.vals[x] = Val{Tuple: []Val{{T: ok}, {T: pos}, {T: r.T}}}
		e.note("range over string: utf8 decoding assumed to yield width 1..4 within the string, ASCII bytes decode to themselves")
		return
	}
	mt := rng.X.Type().Underlying().(*types.Map)
	ln := fmt.Sprintf("(select %s %s)", e.hget(f.heap, e.S.mapLenVar()), coll)
	ok := e.define("itok", "Bool", fmt.Sprintf("(< %s %s)", pos, ln))
	k := f.havocVal(mt.Key(), "itk")
	in := fmt.Sprintf("(select (select %s %s) %s)", e.hget(f.heap, e.S.mapDomVar(mt)), coll, k.T)
	val := e.define("itv", e.S.sortOf(mt.Elem()), fmt.Sprintf("(select (select %s %s) %s)", e.hget(f.heap, e.S.mapVar(mt)), coll, k.T))
	e.assert(fmt.Sprintf("(=> %s %s)", ok, in))
	e.assert(fmt.Sprintf("(>= %s 0)", pos))
	e.assumeWF("", val, mt.Elem())
	e.hset(f.heap, iv, fmt.Sprintf("(store %s %s (ite %s (+ %s 1) %s))", e.hget(f.heap, iv), it, ok, pos, pos))
	f.vals[x] = Val{Tuple: []Val{{T: ok}, {T: k.T}, {T: val}}}
	e.note("range over map: iteration visits len(m) keys of the domain in an arbitrary order (the map is assumed not to grow during the loop)")
}

// exits -------------------------------------------------------------------------

func (f *Frame) panicExit(pos token.Pos, why string) {
	e := f.e
	if f.orderExec {
		// order check: an explicit panic in the loop body is an early exit of the loop
		f.rets = append(f.rets, retSite{reach: f.curReach, heap: f.heap})
		return
	}
	if f.top && e.con != nil {
		if !e.con.MayPanic {
			e.addObl("nopanic", why, f.curReach, "false", pos, "explicit panic must be unreachable", f.props())
		} else if len(e.con.Panics) > 0 {
			env := f.specEnv(f.entry, nil, nil)
			var cs []string
			for _, c := range e.con.Panics {
				t, err := env.evalBool(c.Expr)
				if err != nil {
					e.unsupp("panics clause: " + err.Error())
					continue
				}
				cs = append(cs, t)
			}
			e.addObl("panics", why, f.curReach, or(cs...), pos, "panic only under the declared conditions", f.props())
		}
	}
	e.assert(not(f.curReach))
}

func (f *Frame) runDefers(pos token.Pos) {
	// normal-path semantics: deferred calls run in reverse order with recover() == nil
	for i := len(f.defers) - 1; i >= 0; i-- {
		d := f.defers[i]
		f.e.note("deferred calls are modelled on the normal return path only (recover() == nil there)")
		f.call(d, &d.Call, d.Pos())
	}
}

func (f *Frame) ret(x *ssa.Return) {
	e := f.e
	var vals []Val
	for _, r := range x.Results {
		vals = append(vals, f.get(r))
	}
	if !f.top {
		f.rets = append(f.rets, retSite{reach: f.curReach, vals: vals, heap: f.heap})
		return
	}
	if e.con == nil {
		return
	}
	env := f.specEnv(f.heap, nil, nil)
	f.bindResults(env, f.fn, vals)
	if e.con.Handler && f.recoveredVal != "" {
		for i, c := range e.con.OnPanic {
			t, err := env.evalBool(c.Expr)
			if err != nil {
				e.unsupp("onpanic: " + err.Error())
				continue
			}
			e.addObl("onpanic", clauseLabel(c, i), f.curReach, fmt.Sprintf("(=> (not (= (i_tag %s) 0)) %s)", f.recoveredVal, t), x.Pos(), c.Src, clauseProps(c, f.props()))
		}
	}
	if e.con.NoReturn {
		e.addObl("noreturn", "", f.curReach, "false", x.Pos(), "declared noreturn: no normal return may be reachable", f.props())
	}
	for i, c := range e.con.Ensures {
		if c.Trusted {
			continue // assumed by callers, not proved here (reported where it is used)
		}
		t, err := env.evalBool(c.Expr)
		if err != nil {
			e.unsupp(fmt.Sprintf("ensures %s: %v", clauseLabel(c, i), err))
			continue
		}
		e.addObl("post", clauseLabel(c, i), f.curReach, t, x.Pos(), c.Src, clauseProps(c, f.props()))
	}
	if f.fn.Name() == "init" && f.fn.Signature.Recv() == nil && f.fn.Parent() == nil && f.fn.Pkg != nil {
		for i, gi := range append(append([]Axiom{}, e.P.specs.GlobalInv...), e.P.specs.InitTable...) {
			if gi.PkgPath != f.fn.Pkg.Pkg.Path() {
				continue
			}
			t, err := env.evalBool(gi.C.Expr)
			if err != nil {
				e.unsupp("table clause: " + err.Error())
				continue
			}
			e.addObl("table", clauseLabel(gi.C, i), f.curReach, t, x.Pos(), gi.C.Src, clauseProps(gi.C, f.props()))
		}
	}
	f.checkFrame(x.Pos())
}

func (f *Frame) bindResults(env *SpecEnv, fn *ssa.Function, vals []Val) {
	res := fn.Signature.Results()
	for i := 0; i < res.Len() && i < len(vals); i++ {
		sv := specVal{v: vals[i], t: res.At(i).Type()}
		env.names[fmt.Sprintf("result%d", i)] = sv
		if i == 0 && res.Len() == 1 {
			env.names["result"] = sv
		}
		if n := res.At(i).Name(); n != "" && n != "_" {
			env.names[n] = sv
		}
	}
}

// allowedLocs evaluates the contract's modifies clauses (in the entry state)
// to the locations each heap variable may change at.
func (f *Frame) allowedLocs() (map[string][]*Loc, bool) {
	e := f.e
	c := e.con
	if c != nil && c.ModAll && (len(c.Preserves) > 0 || len(c.FieldsOf) > 0) {
		allowed := map[string][]*Loc{}
		env := f.specEnv(f.entry, nil, nil)
		for _, fc := range c.FieldsOf {
			v, vt, err := env.eval(fc.Expr)
			pt, ok := vt.Underlying().(*types.Pointer)
			if err != nil || !ok {
				continue
			}
			if _, st := structKey(pt.Elem()); st != nil {
				for i := 0; i < st.NumFields(); i++ {
					hv := e.S.fieldVar(pt.Elem(), i)
					allowed[hv] = append(allowed[hv], &Loc{Kind: locField, T: st.Field(i).Type(), Parent: &Loc{Kind: locCell, T: pt.Elem(), Ptr: v.T}, Field: i})
				}
			}
		}
		return allowed, true
	}
	if c == nil || c.ModAll || (len(c.Modifies) == 0 && !c.Pure) {
		return nil, false
	}
	env := f.specEnv(f.entry, nil, nil)
	allowed := map[string][]*Loc{}
	for _, m := range c.Modifies {
		sv, err := env.evalLoc(m.Expr)
		if err != nil || sv.loc == nil {
			e.unsupp("modifies clause " + m.Src)
			continue
		}
		for _, hv := range e.heapVarsOfLoc(sv.loc) {
			allowed[hv] = append(allowed[hv], sv.loc)
		}
	}
	return allowed, true
}

// frameCond: heap variable hv agrees in `now` and `before` on every object
// that existed at function entry, except at the allowed locations.
func (f *Frame) frameCond(hv, now, before string, locs []*Loc) string {
	e := f.e
	// a merged heap value: prove the frame for each alternative under its edge
	// condition instead of through one big if-then-else term
	if mi, ok := e.mergeOf[now]; ok && len(mi.terms) > 1 {
		var parts []string
		for i, t := range mi.terms {
			if t == before {
				continue
			}
			parts = append(parts, fmt.Sprintf("(=> %s %s)", mi.conds[i], f.frameCond(hv, t, before, locs)))
		}
		return and(parts...)
	}
	so := e.S.heapSort[hv]
	if !strings.HasPrefix(so, "(Array Int ") {
		if len(locs) > 0 {
			return "true"
		}
		return fmt.Sprintf("(= %s %s)", now, before)
	}
	var except []string
	for _, l := range locs {
		switch {
		case l.Kind == locField && l.Parent.Kind == locCell:
			except = append(except, fmt.Sprintf("(= r %s)", l.Parent.Ptr))
		case l.Kind == locCell, l.Kind == locGField, l.Kind == locMapAll:
			except = append(except, fmt.Sprintf("(= r %s)", l.Ptr))
		case l.Kind == locElem, l.Kind == locElemAll:
			except = append(except, fmt.Sprintf("(= r %s)", l.Base))
		default:
			except = append(except, "true")
		}
	}
	return fmt.Sprintf("(forall ((r Int)) (=> (and (> r 0) (< r %s) (not %s)) (= (select %s r) (select %s r))))", e.hget(f.entry, "$alloc"), or(except...), now, before)
}

// frameDef: like frameCond, but as a definition of `now` (lambda), used where
// the frame is assumed (loop headers): selects on it reduce by beta reduction.
func (f *Frame) frameDef(hv, now, before string, locs []*Loc) string {
	e := f.e
	so := e.S.heapSort[hv]
	if !strings.HasPrefix(so, "(Array Int ") {
		if len(locs) > 0 {
			return "true"
		}
		return fmt.Sprintf("(= %s %s)", now, before)
	}
	var except []string
	for _, l := range locs {
		switch {
		case l.Kind == locField && l.Parent.Kind == locCell:
			except = append(except, fmt.Sprintf("(= r %s)", l.Parent.Ptr))
		case l.Kind == locCell, l.Kind == locGField, l.Kind == locMapAll:
			except = append(except, fmt.Sprintf("(= r %s)", l.Ptr))
		case l.Kind == locElem, l.Kind == locElemAll:
			except = append(except, fmt.Sprintf("(= r %s)", l.Base))
		default:
			except = append(except, "true")
		}
	}
	return fmt.Sprintf("(= %s (lambda ((r Int)) (ite (and (> r 0) (< r %s) (not %s)) (select %s r) (select %s r))))", now, e.hget(f.entry, "$alloc"), or(except...), before, e.freshLike(hv))
}

func frameExempt(hv string) bool {
	return hv == "$alloc" || hv == "$iter" || strings.HasPrefix(hv, "ghost!")
}

// framedVar: is heap variable hv subject to the function's frame? Under
// `modifies *` only the variables listed in `preserves` are.
func (f *Frame) framedVar(hv string) bool {
	if frameExempt(hv) {
		return false
	}
	c := f.e.con
	if c != nil && c.ModAll {
		if matchPreserves(c.Preserves, hv) {
			return true
		}
		for _, fc := range c.FieldsOf {
			env := f.specEnv(f.entry, nil, nil)
			if _, vt, err := env.eval(fc.Expr); err == nil {
				if pt, ok := vt.Underlying().(*types.Pointer); ok {
					if key, st := structKey(pt.Elem()); st != nil && strings.HasPrefix(hv, "F!"+key+"!") {
						return true
					}
				}
			}
		}
		return false
	}
	return true
}

// matchPreserves: heap variable names or prefix patterns ending in '*'.
func matchPreserves(pats []string, hv string) bool {
	for _, p := range pats {
		if p == hv || strings.HasPrefix(hv, p+":") {
			return true // "E!Int" names the element arrays of every Int-sorted element type
		}
		if strings.HasSuffix(p, "*") && strings.HasPrefix(hv, strings.TrimSuffix(p, "*")) {
			return true
		}
	}
	return false
}

// checkFrame: when the contract declares `modifies`, every heap variable not
// covered by the declared locations must be unchanged on pre-existing
// objects, and covered variables unchanged outside the declared locations.
func (f *Frame) checkFrame(pos token.Pos) {
	e := f.e
	allowed, ok := f.allowedLocs()
	if !ok {
		return
	}
	var names []string
	for hv := range f.heap.m {
		names = append(names, hv)
	}
	sortStrings(names)
	var gn, gc []string
	for _, hv := range names {
		if !f.framedVar(hv) {
			continue
		}
		now, before := e.hget(f.heap, hv), e.hget(f.entry, hv)
		if now == before {
			continue
		}
		gn = append(gn, hv)
		gc = append(gc, f.frameCond(hv, now, before, allowed[hv]))
	}
	e.addGroup("frame", "all", f.curReach, gn, gc, pos, "unchanged outside modifies", f.props())
}

func (c *Contract) pureDeclared() bool { return false }

func sortStrings(s []string) {
	for i := 1; i < len(s); i++ {
		for j := i; j > 0 && s[j] < s[j-1]; j-- {
			s[j], s[j-1] = s[j-1], s[j]
		}
	}
}

// knownNonNil: parameters (assumed non-nil at entry, checked at contract call
// sites), fresh allocations and globals' addresses need no nil obligation.
func knownNonNil(v ssa.Value) bool {
	switch x := v.(type) {
	case *ssa.Parameter, *ssa.Alloc, *ssa.Global, *ssa.FreeVar:
		return true
	case *ssa.FieldAddr, *ssa.IndexAddr:
		_ = x
		return true
	}
	return false
}

// escapes: the address held by v may become reachable from code outside this
// function body (and the closures it calls directly).
func escapes(v ssa.Value, seen map[ssa.Value]bool) bool {
	if seen[v] {
		return false
	}
	seen[v] = true
	refs := v.Referrers()
	if refs == nil {
		return true
	}
	for _, r := range *refs {
		switch u := r.(type) {
		case *ssa.DebugRef:
		case *ssa.UnOp:
			// load through the pointer
		case *ssa.Store:
			if u.Val == v {
				return true
			}
		case *ssa.FieldAddr:
			if escapes(u, seen) {
				return true
			}
		case *ssa.IndexAddr:
			if escapes(u, seen) {
				return true
			}
		case *ssa.Call:
			// passed to a statically known function of the program: does not escape if the
			// corresponding parameter does not escape in the callee's body (checked
			// structurally, recursively; cycles are resolved optimistically, which is sound
			// because an escape needs some concrete escaping instruction in a visited body)
			callee := u.Call.StaticCallee()
			if callee == nil || callee.Blocks == nil || u.Call.IsInvoke() {
				return true
			}
			for i, a := range u.Call.Args {
				if a != v {
					continue
				}
				if i >= len(callee.Params) || escapes(callee.Params[i], seen) {
					return true
				}
			}
			if u.Call.Value == v {
				return true
			}
		case *ssa.Defer:
			// deferred call of a statically known function: as for a call
			callee := u.Call.StaticCallee()
			if callee == nil || callee.Blocks == nil || u.Call.IsInvoke() || u.Call.Value == v {
				return true
			}
			for i, a := range u.Call.Args {
				if a != v {
					continue
				}
				if i >= len(callee.Params) || escapes(callee.Params[i], seen) {
					return true
				}
			}
		case *ssa.MakeClosure:
			// captured: fine if the closure is only ever called/deferred directly and the
			// captured variable does not escape inside it
			crefs := u.Referrers()
			if crefs == nil {
				return true
			}
			for _, cr := range *crefs {
				switch cu := cr.(type) {
				case *ssa.Call:
					if cu.Call.Value != ssa.Value(u) {
						return true
					}
				case *ssa.Defer:
					if cu.Call.Value != ssa.Value(u) {
						return true
					}
				case *ssa.DebugRef:
				default:
					return true
				}
			}
			fn := u.Fn.(*ssa.Function)
			for i, b := range u.Bindings {
				if b == v && i < len(fn.FreeVars) {
					if escapes(fn.FreeVars[i], seen) {
						return true
					}
				}
			}
		default:
			return true
		}
	}
	return false
}

func (f *Frame) topFrame() *Frame {
	for f.parent != nil {
		f = f.parent
	}
	return f
}

// assumeAllocated: every reference reachable in a loaded / returned value
// denotes an object that already exists (is below the allocation watermark).
func (f *Frame) assumeAllocated(term string, t types.Type, depth int) {
	e := f.e
	al := e.hget(f.heap, e.S.allocVar())
	switch u := t.Underlying().(type) {
	case *types.Pointer, *types.Map, *types.Chan:
		e.assert(fmt.Sprintf("(< %s %s)", term, al))
	case *types.Slice:
		e.assert(fmt.Sprintf("(< (sl_base %s) %s)", term, al))
	case *types.Struct:
		if depth < 2 {
			for i := 0; i < u.NumFields(); i++ {
				f.assumeAllocated(fmt.Sprintf("(%s %s)", e.S.fieldAccessor(t, i), term), u.Field(i).Type(), depth+1)
			}
		}
	}
}

// zeroGhostFields: ghost fields of a freshly allocated struct start at zero.
func (f *Frame) zeroGhostFields(t types.Type, ref string) {
	e := f.e
	key, st := structKey(t)
	if st == nil {
		return
	}
	for gk, gt := range e.P.specs.GhostFields {
		if !strings.HasPrefix(gk, key+".") {
			continue
		}
		name := strings.TrimPrefix(gk, key+".")
		env := f.specEnv(f.heap, nil, nil)
		ty, err := env.lookupType(gt)
		if err != nil {
			continue
		}
		hv := e.S.heapVar("F!"+key+"!$"+name, "(Array Int "+e.S.sortOf(ty)+")")
		e.hset(f.heap, hv, fmt.Sprintf("(store %s %s %s)", e.hget(f.heap, hv), ref, e.S.zero(ty)))
	}
}

func isEmptyStruct(t types.Type) bool {
	st, ok := t.Underlying().(*types.Struct)
	return ok && st.NumFields() == 0
}

// inRepoPointer: pointer to a named type declared in /repo (AST nodes, values ...).
func (f *Frame) inRepoPointer(t types.Type) bool {
	pt, ok := t.Underlying().(*types.Pointer)
	if !ok {
		return false
	}
	nt, ok := types.Unalias(pt.Elem()).(*types.Named)
	if !ok || nt.Obj().Pkg() == nil {
		return false
	}
	return strings.HasPrefix(nt.Obj().Pkg().Path(), repoModule)
}

// isCallResult: v is the (possibly extracted) result of a call.
func isCallResult(v ssa.Value) bool {
	switch x := v.(type) {
	case *ssa.Call:
		return true
	case *ssa.Extract:
		_, ok := x.Tuple.(*ssa.Call)
		return ok
	}
	return false
}
