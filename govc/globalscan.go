package main

import (
	"fmt"
	"go/token"
	"go/types"
	"sort"
	"strings"

	"golang.org/x/tools/go/ssa"
)

// Structural coverage obligations over whole packages (not per contract):
//
// globalState (C08/C09/C13): outside package initialisers, no function of the
// listed packages stores to a package-level variable or hands the address of
// one to a callee (sync.Pool / sync.Map / mutex methods included) - rendering
// and generation keep no state between calls. Reads are allowed.
//
// recoverSites (C06/C12): every function of the listed packages that calls
// recover() is under a `handler` contract, whose obligations say that a
// recovered panic is re-raised or turned into the returned error.
type structFinding struct {
	name string // obligation name
	pos  string
	src  string
	ok   bool
}

// types of the standard library documented as safe for concurrent use whose
// methods do not carry state from one use to the next that could show in the
// output
var concurrencySafeTypes = map[string]bool{
	"regexp.Regexp": true,
	"log.Logger":    true,
}

func rootGlobal(v ssa.Value) *ssa.Global {
	for {
		switch x := v.(type) {
		case *ssa.Global:
			return x
		case *ssa.FieldAddr:
			v = x.X
		case *ssa.IndexAddr:
			v = x.X
		default:
			return nil
		}
	}
}

func (p *Prog) globalStateScan(pkgSuffixes []string) []structFinding {
	var out []structFinding
	var keys []string
	for k, fn := range p.funcs {
		if !p.inRepo(fn) || fn.Blocks == nil || fn.Pkg == nil && fn.Parent() == nil {
			continue
		}
		keys = append(keys, k)
	}
	sort.Strings(keys)
	for _, k := range keys {
		fn := p.funcs[k]
		pk := fn.Pkg
		if pk == nil && fn.Parent() != nil {
			pk = fn.Parent().Pkg
		}
		if pk == nil {
			continue
		}
		match := false
		for _, s := range pkgSuffixes {
			if pk.Pkg.Path() == repoModule+s {
				match = true
			}
		}
		if !match || fn.Synthetic != "" {
			continue
		}
		top := fn
		for top.Parent() != nil {
			top = top.Parent()
		}
		if top.Name() == "init" || strings.HasPrefix(top.Name(), "init#") {
			continue
		}
		bad := map[string]string{}
		for _, b := range fn.Blocks {
			for _, ins := range b.Instrs {
				switch x := ins.(type) {
				case *ssa.Store:
					if g := rootGlobal(x.Addr); g != nil {
						bad[g.Name()] = "stores to package-level variable " + g.Name()
					}
				case ssa.CallInstruction:
					c := x.Common()
					args := append([]ssa.Value{}, c.Args...)
					// a map or slice LOADED from a package-level variable and handed to a (non-builtin)
					// callee: the callee may keep or write the shared container (a shared empty map used
					// as "no data" receives every render's params)
					if _, isBuiltin := c.Value.(*ssa.Builtin); !isBuiltin {
						for _, a := range args {
							switch a.Type().Underlying().(type) {
							case *types.Map, *types.Slice:
							default:
								continue
							}
							if ld, ok := a.(*ssa.UnOp); ok {
								if g, ok := ld.X.(*ssa.Global); ok {
									bad[g.Name()] = "hands the map / slice held in package-level variable " + g.Name() + " to a callee"
								}
							}
						}
					}
					for _, a := range args {
						pt, isPtr := a.Type().Underlying().(*types.Pointer)
						if !isPtr {
							continue
						}
						if g := rootGlobal(a); g != nil {
							bad[g.Name()] = "hands the address of package-level variable " + g.Name() + " to a callee"
						}
						// a pointer LOADED from a package-level variable: the object behind it is shared by
						// every render / generation; unless its type is documented as safe for concurrent
						// use (and stateless for our purposes), calling into it is shared mutable state
						if ld, ok := a.(*ssa.UnOp); ok {
							if g, ok := ld.X.(*ssa.Global); ok {
								if nt, ok := pt.Elem().(*types.Named); ok && nt.Obj().Pkg() != nil && !strings.HasPrefix(nt.Obj().Pkg().Path(), repoModule) {
									full := nt.Obj().Pkg().Path() + "." + nt.Obj().Name()
									if !concurrencySafeTypes[full] {
										bad[g.Name()] = "calls into the shared *" + full + " held in package-level variable " + g.Name() + " (a type not known to be safe for concurrent use)"
									}
								}
							}
						}
					}
				}
			}
		}
		disp := p.fnDisplay(fn)
		if len(bad) == 0 {
			continue
		}
		var names []string
		for n := range bad {
			names = append(names, n)
		}
		sort.Strings(names)
		for _, n := range names {
			ok := false
			if c := p.specs.Contracts[k]; c != nil {
				for _, note := range c.Notes {
					if strings.HasPrefix(note, "globalok "+n+" ") {
						ok = true
					}
				}
			}
			out = append(out, structFinding{name: disp + "#global.state:" + n, pos: p.fset.Position(fn.Pos()).String(), src: bad[n], ok: ok})
		}
	}
	return out
}

func (p *Prog) recoverSiteScan(pkgSuffixes []string) []structFinding {
	var out []structFinding
	var keys []string
	for k := range p.funcs {
		keys = append(keys, k)
	}
	sort.Strings(keys)
	for _, k := range keys {
		fn := p.funcs[k]
		if !p.inRepo(fn) || fn.Blocks == nil {
			continue
		}
		pk := fn.Pkg
		if pk == nil && fn.Parent() != nil {
			pk = fn.Parent().Pkg
		}
		if pk == nil {
			continue
		}
		match := false
		for _, s := range pkgSuffixes {
			if pk.Pkg.Path() == repoModule+s {
				match = true
			}
		}
		if !match {
			continue
		}
		calls := false
		for _, b := range fn.Blocks {
			for _, ins := range b.Instrs {
				if c, ok := ins.(*ssa.Call); ok {
					if bi, ok := c.Call.Value.(*ssa.Builtin); ok && bi.Name() == "recover" {
						calls = true
					}
				}
			}
		}
		if !calls {
			continue
		}
		c := p.specs.Contracts[k]
		out = append(out, structFinding{name: p.fnDisplay(fn) + "#recover.covered", pos: p.fset.Position(fn.Pos()).String(),
			src: "a function that calls recover() is under a `handler` contract (so that a recovered panic provably becomes the returned error or is re-raised)", ok: c != nil && c.Handler})
	}
	return out
}

// goStmtScan (C13): every `go` statement (and every `select`) of the listed
// packages sits in a function whose contract records why the started goroutine
// cannot make the result depend on scheduling (`note goroutine: <reason>`).
// The only ones on the compile / generate path of the pinned tree are the two
// scanner starts in parse.lex / parse.lexExpr: one producer, one consumer, an
// unbuffered channel - the token order is the scanner's emission order.
func (p *Prog) goStmtScan(pkgSuffixes []string) []structFinding {
	var out []structFinding
	var keys []string
	for k := range p.funcs {
		keys = append(keys, k)
	}
	sort.Strings(keys)
	for _, k := range keys {
		fn := p.funcs[k]
		if !p.inRepo(fn) || fn.Blocks == nil || fn.Synthetic != "" {
			continue
		}
		pk := fn.Pkg
		if pk == nil && fn.Parent() != nil {
			pk = fn.Parent().Pkg
		}
		if pk == nil {
			continue
		}
		match := false
		for _, s := range pkgSuffixes {
			if pk.Pkg.Path() == repoModule+s {
				match = true
			}
		}
		if !match {
			continue
		}
		top := fn
		for top.Parent() != nil {
			top = top.Parent()
		}
		nsel := 0
		for _, b := range fn.Blocks {
			for _, ins := range b.Instrs {
				what, tag := "", ""
				switch x := ins.(type) {
				case *ssa.Go:
					tag = p.calleeKey(fn, &x.Call)
					what = "starts a goroutine running " + tag
				case *ssa.Select:
					tag = fmt.Sprintf("select#%d", nsel)
					nsel++
					what = "selects over channels"
				}
				if what == "" {
					continue
				}
				ok := false
				for _, kk := range []string{k, p.contractKey(top)} {
					if c := p.specs.Contracts[kk]; c != nil {
						for _, note := range c.Notes {
							if strings.HasPrefix(note, "goroutine "+tag+":") {
								ok = true
							}
						}
					}
				}
				out = append(out, structFinding{name: p.fnDisplay(fn) + "#goroutine.covered:" + tag, pos: p.fset.Position(ins.Pos()).String(),
					src: "the function " + what + "; its contract must record (note goroutine " + tag + ": ...) why scheduling cannot influence the result", ok: ok})
			}
		}
	}
	return out
}

func printStructFindings(title string, fs []structFinding) {
	fmt.Println(title)
	for _, f := range fs {
		fmt.Printf("  %-5v %s  %s  [%s]\n", f.ok, f.name, f.pos, f.src)
	}
}

// stackCoverScan (C05): a stack overflow is fatal to a Go process (it cannot be
// recovered), so unbounded recursion on the input is a crash, not an error.
// Every function of the listed packages that lies on a cycle of the static
// call graph (direct calls, deferred calls and closures it creates; goroutine
// starts are not stack growth) must carry a `stackbound` tuple. The `stack`
// obligations at the call sites then make the tuple decrease along every edge
// of every cycle, and its components are bounded naturals, so the depth of
// the recursion is bounded by a constant. Calls through function values and
// interfaces are not followed (the lexer's state functions are driven by a
// loop, not by recursion): that is recorded as an assumption.
func (p *Prog) stackCoverScan(pkgSuffixes []string) []structFinding {
	var keys []string
	for k := range p.funcs {
		keys = append(keys, k)
	}
	sort.Strings(keys)
	var nodes []*ssa.Function
	idx := map[*ssa.Function]int{}
	for _, k := range keys {
		fn := p.funcs[k]
		if !p.inRepo(fn) || fn.Blocks == nil || fn.Synthetic != "" {
			continue
		}
		pk := fn.Pkg
		for q := fn; pk == nil && q.Parent() != nil; q = q.Parent() {
			pk = q.Parent().Pkg
		}
		if pk == nil {
			continue
		}
		match := false
		for _, s := range pkgSuffixes {
			if pk.Pkg.Path() == repoModule+s {
				match = true
			}
		}
		if !match {
			continue
		}
		idx[fn] = len(nodes)
		nodes = append(nodes, fn)
	}
	adj := make([][]int, len(nodes))
	for i, fn := range nodes {
		seen := map[int]bool{}
		add := func(g *ssa.Function) {
			if g == nil {
				return
			}
			if j, ok := idx[g]; ok && !seen[j] {
				seen[j] = true
				adj[i] = append(adj[i], j)
			}
		}
		for _, b := range fn.Blocks {
			for _, ins := range b.Instrs {
				switch x := ins.(type) {
				case *ssa.Call:
					add(x.Call.StaticCallee())
				case *ssa.Defer:
					add(x.Call.StaticCallee())
				case *ssa.MakeClosure:
					if g, ok := x.Fn.(*ssa.Function); ok {
						add(g)
					}
				}
			}
		}
	}
	// Tarjan's strongly connected components
	n := len(nodes)
	index, low, comp := make([]int, n), make([]int, n), make([]int, n)
	on := make([]bool, n)
	for i := range index {
		index[i], comp[i] = -1, -1
	}
	var stack []int
	next, ncomp := 0, 0
	size := map[int]int{}
	var strong func(v int)
	strong = func(v int) {
		index[v], low[v] = next, next
		next++
		stack = append(stack, v)
		on[v] = true
		for _, w := range adj[v] {
			if index[w] < 0 {
				strong(w)
				if low[w] < low[v] {
					low[v] = low[w]
				}
			} else if on[w] && index[w] < low[v] {
				low[v] = index[w]
			}
		}
		if low[v] == index[v] {
			for {
				w := stack[len(stack)-1]
				stack = stack[:len(stack)-1]
				on[w] = false
				comp[w] = ncomp
				size[ncomp]++
				if w == v {
					break
				}
			}
			ncomp++
		}
	}
	for v := 0; v < n; v++ {
		if index[v] < 0 {
			strong(v)
		}
	}
	var out []structFinding
	for i, fn := range nodes {
		self := false
		for _, j := range adj[i] {
			if j == i {
				self = true
			}
		}
		if size[comp[i]] < 2 && !self {
			continue
		}
		c := p.specs.Contracts[p.contractKey(fn)]
		ok := c != nil && len(c.Stack) > 0
		src := "the function lies on a cycle of the static call graph: it must carry a stackbound tuple, so that the stack obligations at its calls bound the depth of the recursion"
		if c != nil && !ok {
			for _, note := range c.Notes {
				if strings.HasPrefix(note, "stackbound:") {
					ok = true
					src = "ASSUMED, not proved: recursive function without a stackbound tuple; recorded reason: " + strings.TrimSpace(strings.TrimPrefix(note, "stackbound:"))
				}
			}
		}
		out = append(out, structFinding{name: p.fnDisplay(fn) + "#stack.covered", pos: p.fset.Position(fn.Pos()).String(), src: src, ok: ok})
	}
	return out
}

// trustedShapeScan (C18): a trusted function is not verified, so an edit of its
// body would go unnoticed. For the one whose trust is "receives until the
// channel is closed" (`untilclosed`) the claim is a shape of its SSA and is
// decided here: every return is reached only over the not-ok edge of a
// comma-ok channel receive, and the body has no call, store, send, select, go
// or defer (nothing that could stop the loop early or do anything else).
func (p *Prog) trustedShapeScan() []structFinding {
	var out []structFinding
	var keys []string
	for k := range p.specs.Contracts {
		keys = append(keys, k)
	}
	sort.Strings(keys)
	for _, k := range keys {
		c := p.specs.Contracts[k]
		if c == nil || !c.Trusted || !c.UntilClosed {
			continue
		}
		fn := p.funcs[k]
		name := strings.TrimPrefix(k, repoModule+"/")
		if fn != nil {
			name = p.fnDisplay(fn)
		}
		ok := fn != nil && fn.Blocks != nil
		why := ""
		if ok {
			for _, b := range fn.Blocks {
				for _, ins := range b.Instrs {
					switch x := ins.(type) {
					case *ssa.Call, *ssa.Store, *ssa.Send, *ssa.Select, *ssa.Go, *ssa.Defer, *ssa.MapUpdate, *ssa.Panic, *ssa.RunDefers:
						ok = false
						why = fmt.Sprintf("instruction %T in the body", ins)
					case *ssa.Return:
						if len(b.Preds) == 0 {
							ok = false
							why = "returns without receiving"
						}
						for _, pr := range b.Preds {
							iff, isIf := pr.Instrs[len(pr.Instrs)-1].(*ssa.If)
							good := false
							if isIf && len(pr.Succs) == 2 && pr.Succs[1] == b && pr.Succs[0] != b {
								if ex, isEx := iff.Cond.(*ssa.Extract); isEx && ex.Index == 1 {
									if un, isUn := ex.Tuple.(*ssa.UnOp); isUn && un.Op == token.ARROW && un.CommaOk {
										good = true
									}
								}
							}
							if !good {
								ok = false
								why = "a return that is not behind the not-ok edge of a channel receive"
							}
						}
						_ = x
					}
				}
			}
		} else {
			why = "function not found"
		}
		pos := ""
		if fn != nil {
			pos = p.fset.Position(fn.Pos()).String()
		}
		src := "trusted as 'receives until the channel is closed': the body is a comma-ok receive loop that returns only when the channel is closed, and does nothing else"
		if !ok {
			src += " - NOT SO: " + why
		}
		out = append(out, structFinding{name: name + "#trusted.shape", pos: pos, src: src, ok: ok})
	}
	return out
}
