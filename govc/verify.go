package main

import (
	"fmt"
	"go/types"
	"sort"
	"strings"

	"golang.org/x/tools/go/ssa"
)

type FnResult struct {
	Fn          string
	Key         string
	Obls        []*Obligation
	Notes       []string
	Unsupported []string
	Header      string
	Loops       int
}

func (p *Prog) newEnc(fn *ssa.Function, con *Contract, S *Sorts) *Enc {
	return &Enc{P: p, S: S, fn: fn, con: con, curBlk: -1, names: map[string]int{}, notes: map[string]bool{}, ifaces: map[string]*types.Interface{}}
}

// verifyFunction generates all obligations for one function under contract.
func (p *Prog) verifyFunction(fn *ssa.Function, con *Contract) (res *FnResult) {
	res = &FnResult{Fn: p.fnDisplay(fn), Key: p.contractKey(fn)}
	defer func() {
		if r := recover(); r != nil {
			res.Unsupported = append(res.Unsupported, fmt.Sprintf("encoder failure: %v", r))
			res.Obls = nil
		}
	}()
	if fn.Blocks == nil {
		res.Unsupported = append(res.Unsupported, "no body")
		return
	}
	// pass 1: discover heap variables (needed to havoc "everything" soundly)
	S := newSorts()
	e1 := p.newEnc(fn, con, S)
	e1.dry = true
	e1.encodeTop()
	var hv []string
	for v := range S.heapSort {
		hv = append(hv, v)
	}
	sort.Strings(hv)
	// pass 2 (same sort registry: declarations are idempotent)
	e := p.newEnc(fn, con, S)
	e.allHeapVars = hv
	e.encodeTop()
	res.Obls = e.obls
	// vacuity guard for ghost hooks: a key that matches no call site (typo, renamed or
	// removed callee) would silently drop its assertions / ghost updates
	if con != nil {
		var keys []string
		for k := range con.AtCalls {
			keys = append(keys, k)
		}
		sort.Strings(keys)
		for _, k := range keys {
			if k == "entry" || e.hooksFired[k] {
				continue
			}
			allForbid := true
			for _, h := range con.AtCalls[k] {
				if !h.NoGuard {
					allForbid = false
				}
			}
			if allForbid {
				// recorded as a (structurally decided) obligation: the forbidden call does not occur
				for _, h := range con.AtCalls[k] {
					res.Obls = append(res.Obls, &Obligation{Name: res.Fn + "#forbid:" + k + ":" + clauseLabel(h.C, 0), Kind: "forbid", Fn: res.Fn, Props: clauseProps(h.C, con.Props), Solver: "structural", Result: "unsat",
						Src: "no call of " + strings.TrimSuffix(k, "#*") + " occurs in the function (" + h.C.Label + ")"})
				}
				continue
			}
			var props []string
			for _, h := range con.AtCalls[k] {
				props = append(props, clauseProps(h.C, con.Props)...)
			}
			res.Obls = append(res.Obls, &Obligation{Name: res.Fn + "#hook:" + k, Kind: "hook", Fn: res.Fn, Props: props, Solver: "structural", Result: "sat",
				Src: "the `at call " + k + "` directive of the contract matches no call site of the function"})
		}
	}
	if con != nil {
		res.Obls = append(res.Obls, p.noReadsObligations(fn, con, res.Fn)...)
		res.Obls = append(res.Obls, p.onlyWriterObligations(fn, con, res.Fn, e)...)
		// onlycallers: the function is called (or mentioned as a value) only by the listed functions
		for _, oc := range con.OnlyCallers {
			props := oc.Props
			if len(props) == 0 {
				props = con.Props
			}
			allowed := map[string]bool{}
			for _, a := range oc.Fields {
				allowed[a] = true
			}
			var bad []string
			var keys []string
			for k := range p.funcs {
				keys = append(keys, k)
			}
			sort.Strings(keys)
			for _, k := range keys {
				g := p.funcs[k]
				if !p.inRepo(g) || g.Blocks == nil || g == fn {
					continue
				}
				mentions := false
				for _, b := range g.Blocks {
					for _, ins := range b.Instrs {
						var ops [16]*ssa.Value
						for _, op := range ins.Operands(ops[:0]) {
							if op != nil && *op != nil && *op == ssa.Value(fn) {
								mentions = true
							}
						}
					}
				}
				if !mentions {
					continue
				}
				top := g
				for top.Parent() != nil {
					top = top.Parent()
				}
				d := p.fnDisplay(top)
				short := d[strings.Index(d, ".")+1:]
				if !allowed[d] && !allowed[short] {
					bad = append(bad, p.fnDisplay(g))
				}
			}
			o := &Obligation{Name: res.Fn + "#onlycallers", Kind: "onlycallers", Fn: res.Fn, Props: props, Solver: "structural", Result: "unsat",
				Src: "called only by " + strings.Join(oc.Fields, ", ") + " (" + oc.Label + ")"}
			if len(bad) > 0 {
				o.Result = "sat"
				o.Src = "also called by " + strings.Join(bad, ", ") + ", which the contract does not list (" + oc.Label + "): a new caller must be put under the same discipline"
			}
			res.Obls = append(res.Obls, o)
		}
		// nomethod: the named methods do not exist (e.g. no custom JSON marshalling on value types)
		for _, nm := range con.NoMethods {
			props := nm.Props
			if len(props) == 0 {
				props = con.Props
			}
			var found []string
			for _, f := range nm.Fields {
				i := strings.LastIndex(f, ".")
				if i <= 0 {
					continue
				}
				ty := p.lookupQualifiedType(f[:i])
				if ty == nil {
					found = append(found, f+" (no such type)")
					continue
				}
				for _, t2 := range []types.Type{ty, types.NewPointer(ty)} {
					ms := types.NewMethodSet(t2)
					for j := 0; j < ms.Len(); j++ {
						if ms.At(j).Obj().Name() == f[i+1:] {
							found = append(found, f)
						}
					}
				}
			}
			o := &Obligation{Name: res.Fn + "#nomethod:" + nm.Label, Kind: "nomethod", Fn: res.Fn, Props: props, Solver: "structural", Result: "unsat",
				Src: "none of " + strings.Join(nm.Fields, ", ") + " exists (" + nm.Label + ")"}
			if len(found) > 0 {
				o.Result = "sat"
				o.Src = "method(s) " + strings.Join(found, ", ") + " exist (" + nm.Label + ")"
			}
			res.Obls = append(res.Obls, o)
		}
		for _, ft := range con.FieldTypes {
			props := ft.Props
			if len(props) == 0 {
				props = con.Props
			}
			fld, want := ft.Fields[0], ft.Fields[1]
			got := "(no such field)"
			if i := strings.LastIndex(fld, "."); i > 0 {
				if ty := p.lookupQualifiedType(fld[:i]); ty != nil {
					if st, ok := ty.Underlying().(*types.Struct); ok {
						for j := 0; j < st.NumFields(); j++ {
							if st.Field(j).Name() == fld[i+1:] {
								got = types.TypeString(st.Field(j).Type(), func(pk *types.Package) string { return pk.Path() })
							}
						}
					}
				}
			}
			o := &Obligation{Name: res.Fn + "#fieldtype:" + fld, Kind: "fieldtype", Fn: res.Fn, Props: props, Solver: "structural", Result: "unsat",
				Src: "field " + fld + " has type " + want + " (" + ft.Label + ")"}
			if got != want {
				o.Result = "sat"
				o.Src = "field " + fld + " has type " + got + ", the contract rests on " + want + " (" + ft.Label + ")"
			}
			res.Obls = append(res.Obls, o)
		}
	}
	// `recoverby H`: panics raised after `defer H(...)` are treated as converted into the
	// error result. Go's recover() only stops a panic when the DEFERRED function itself
	// calls it, so H must be deferred directly (not called from inside another deferred
	// function); what runs before the defer is checked for panics as usual.
	if con != nil && con.RecoverBy != "" && !con.Extern && !con.Trusted {
		direct := false
		for _, b := range fn.Blocks {
			for _, ins := range b.Instrs {
				if d, ok := ins.(*ssa.Defer); ok {
					k := p.calleeKey(fn, &d.Call)
					if k == con.RecoverBy {
						direct = true
					}
				}
			}
		}
		o := &Obligation{Name: res.Fn + "#recoverby:" + con.RecoverBy, Kind: "recoverby", Fn: res.Fn, Props: con.Props, Solver: "structural", Result: "unsat",
			Src: "the recover handler " + con.RecoverBy + " is deferred directly by this function"}
		if !direct {
			o.Result = "sat"
			o.Src = "the contract names " + con.RecoverBy + " as the recover handler, but the function does not defer it directly: a handler called from inside another deferred function cannot recover (recover() returns nil there) and the panic escapes to the caller"
		}
		res.Obls = append(res.Obls, o)
	}
	for n := range e.notes {
		res.Notes = append(res.Notes, n)
	}
	sort.Strings(res.Notes)
	res.Unsupported = e.unsupported
	res.Header = S.hdr.String() + S.ifaceAxioms(e.ifaces) + p.axiomText(e)
	res.Loops = len(findLoops(fn))
	for _, o := range res.Obls {
		o.Query = res.Header + o.Query
		o.HeapSorts = S.heapSort
		o.Tags = S.tags
		for _, ch := range o.Children {
			ch.Query = res.Header + ch.Query
			ch.HeapSorts = S.heapSort
		}
	}
	return
}

func (p *Prog) axiomText(e *Enc) string {
	var b strings.Builder
	for _, ax := range p.specs.Axioms {
		pk := p.pkgByPath(ax.PkgPath)
		if pk == nil {
			continue
		}
		env := &SpecEnv{e: e, heap: &Heap{m: map[string]string{}}, pkg: pk, names: map[string]specVal{}}
		mark := e.S.hdr.Len()
		t, err := env.evalBool(ax.C.Expr)
		if err != nil {
			continue
		}
		// declarations the axiom needed were appended to the header after we
		// captured it; include them
		b.WriteString(e.S.hdr.String()[mark:])
		fmt.Fprintf(&b, "(assert %s)\n", t)
	}
	return b.String()
}

func (e *Enc) encodeTop() {
	fn := e.fn
	f := e.newFrame(fn, 0, true)
	f.con = e.con
	e.S.allocVar()
	e.S.iterVar()
	heap := &Heap{m: map[string]string{}}
	alloc0 := e.hget(heap, "$alloc")
	e.assert(fmt.Sprintf("(> %s 0)", alloc0))
	for _, p := range fn.Params {
		n := q("in!" + p.Name())
		e.decl(n, e.S.sortOf(p.Type()))
		e.assumeWF("", n, p.Type())
		if isPointerLike(p.Type()) {
			e.assert(fmt.Sprintf("(< %s %s)", n, alloc0))
		}
		if _, ok := p.Type().Underlying().(*types.Pointer); ok {
			e.assert(fmt.Sprintf("(> %s 0)", n))
			e.note("pointer parameters are assumed non-nil at entry (checked at call sites that use this contract)")
		}
		if sl, ok := p.Type().Underlying().(*types.Slice); ok {
			_ = sl
			e.assert(fmt.Sprintf("(< (sl_base %s) %s)", n, alloc0))
		}
		if _, st := structKey(p.Type()); st != nil {
			f.heap = heap
			f.assumeAllocated(n, p.Type(), 0)
		}
		f.vals[p] = Val{T: n}
		f.args = append(f.args, Val{T: n})
		e.inputs = append(e.inputs, n)
		e.inputBounds(n, p.Type(), heap)
	}
	for _, fv := range fn.FreeVars {
		n := q("fv!" + fv.Name())
		e.decl(n, e.S.sortOf(fv.Type()))
		e.assumeWF("", n, fv.Type())
		if isPointerLike(fv.Type()) {
			e.assert(fmt.Sprintf("(and (> %s 0) (< %s %s))", n, n, alloc0))
		}
		f.vals[fv] = Val{T: n}
	}
	if fn.Parent() != nil {
		st := q("self!closure")
		e.decl(st, "Int")
		e.assert(fmt.Sprintf("(and (> %s 0) (= (fncode %s) (fncode %s)))", st, st, e.fnId(fn)))
		f.selfTerm = st
	} else {
		f.selfTerm = e.fnId(fn)
	}
	f.entry = heap.clone()
	f.heap = heap
	isInit := fn.Name() == "init" && fn.Signature.Recv() == nil && fn.Parent() == nil
	if isInit && fn.Pkg != nil {
		if g, ok := fn.Pkg.Members["init$guard"].(*ssa.Global); ok {
			gv := e.S.globalVar(fn.Pkg.Pkg.Path(), g.Name(), g.Type().(*types.Pointer).Elem())
			e.assert(not(e.hget(heap, gv)))
			e.note("package initialiser verified for its one real execution (init$guard false at entry)")
		}
	}
	if !isInit && fn.Pkg != nil {
		genv := f.specEnv(heap, nil, nil)
		for _, gi := range e.P.specs.GlobalInv {
			if gi.PkgPath != fn.Pkg.Pkg.Path() {
				continue
			}
			if t, err := genv.evalBool(gi.C.Expr); err == nil {
				e.assert(t)
				e.note("global invariant assumed at entry (proved for init, write-once checked): " + gi.C.Src)
			}
		}
	}
	if e.con != nil {
		for _, n := range e.con.Notes {
			e.note("stated by the contract of " + e.P.fnDisplay(fn) + ": " + n)
		}
		env := f.specEnv(heap, nil, nil)
		for _, g := range e.con.Ghosts {
			l, _, err := env.ghostLoc(g)
			if err != nil {
				e.unsupp("ghost " + g.Name + ": " + err.Error())
				continue
			}
			v, vt, err := env.eval(g.Init.Expr)
			if err != nil {
				e.unsupp("ghost init " + g.Name + ": " + err.Error())
				continue
			}
			if vt == types.Typ[types.UntypedNil] {
				v.T = e.S.zero(l.T)
			}
			e.store(heap, l, v.T)
		}
		for _, gs := range e.con.AtEntry {
			lv, perr := parseSpecExpr(gs.Var)
			if perr != nil {
				e.unsupp("at entry: " + perr.Error())
				continue
			}
			sv, err := env.evalLoc(lv)
			v, _, err2 := env.eval(gs.C.Expr)
			if err != nil || err2 != nil || sv.loc == nil {
				e.unsupp(fmt.Sprintf("at entry set %s: %v %v", gs.Var, err, err2))
				continue
			}
			e.store(heap, sv.loc, v.T)
		}
		for i, c := range e.con.Requires {
			t, err := env.evalBool(c.Expr)
			if err != nil {
				e.unsupp(fmt.Sprintf("requires %s: %v", clauseLabel(c, i), err))
				continue
			}
			e.assert(t)
		}
		e.addReach("entry", "true", fn.Pos())
	}
	f.run("true", heap)
}

// inputBounds records soft bounds (small strings, small integers) on a
// function input; replay tries to find a model within them first.
func (e *Enc) inputBounds(term string, t types.Type, heap *Heap) {
	switch u := t.Underlying().(type) {
	case *types.Basic:
		if u.Info()&types.IsString != 0 {
			fmt.Fprintf(&e.bounds, "(assert (and (<= (s_len %s) 40) (<= (s_off %s) 8)))\n", term, term)
			// prefer printable ASCII (plus tab / newline): utf8 decoding is then fully determined by the assumed contracts
			for k := 0; k < 40; k++ {
				c := fmt.Sprintf("(str_at %s %d)", term, k)
				fmt.Fprintf(&e.bounds, "(assert (or (and (<= 32 %s) (<= %s 126)) (= %s 10) (= %s 9)))\n", c, c, c, c)
			}
		} else if u.Info()&types.IsInteger != 0 {
			fmt.Fprintf(&e.bounds, "(assert (and (<= (- 64) %s) (<= %s 64)))\n", term, term)
		}
	case *types.Slice:
		fmt.Fprintf(&e.bounds, "(assert (and (<= (sl_len %s) 16) (<= (sl_cap %s) 16) (<= (sl_off %s) 4)))\n", term, term, term)
	case *types.Pointer:
		if _, st := structKey(u.Elem()); st != nil {
			for i := 0; i < st.NumFields(); i++ {
				ft := st.Field(i).Type()
				if b, ok := ft.Underlying().(*types.Basic); ok && (b.Info()&types.IsString != 0 || b.Info()&types.IsInteger != 0) {
					e.inputBounds(fmt.Sprintf("(select %s %s)", e.hget(heap, e.S.fieldVar(u.Elem(), i)), term), ft, heap)
				}
			}
		}
	}
}

// noReadsObligations decides `noreads` directives structurally: the function and
// every repo function reachable from it through static calls, closures and
// function values it mentions contain no selection of the listed fields.
// Calls through interfaces and function-typed variables are not followed (the
// obligation text says so); reflection is outside the model.
func (p *Prog) noReadsObligations(fn *ssa.Function, con *Contract, disp string) []*Obligation {
	var out []*Obligation
	for _, nr := range con.NoReads {
		props := nr.Props
		if len(props) == 0 {
			props = con.Props
		}
		for _, fld := range nr.Fields {
			i := strings.LastIndex(fld, ".")
			name := disp + "#noreads:" + fld
			var st *types.Struct
			if i > 0 {
				if ty := p.lookupQualifiedType(fld[:i]); ty != nil {
					st, _ = ty.Underlying().(*types.Struct)
				}
			}
			idx := -1
			if st != nil {
				for j := 0; j < st.NumFields(); j++ {
					if st.Field(j).Name() == fld[i+1:] {
						idx = j
					}
				}
			}
			if idx < 0 {
				out = append(out, &Obligation{Name: name, Kind: "noreads", Fn: disp, Props: props, Solver: "structural", Result: "sat",
					Src: "noreads: " + fld + " is not a field of a struct type of the program"})
				continue
			}
			seen := map[*ssa.Function]bool{}
			var hit string
			var nfn int
			var visit func(g *ssa.Function)
			visit = func(g *ssa.Function) {
				if g == nil || seen[g] || hit != "" {
					return
				}
				seen[g] = true
				if !p.inRepo(g) || g.Blocks == nil {
					return
				}
				nfn++
				for _, b := range g.Blocks {
					for _, ins := range b.Instrs {
						var xt types.Type
						fi := -1
						switch x := ins.(type) {
						case *ssa.FieldAddr:
							xt, fi = x.X.Type(), x.Field
						case *ssa.Field:
							xt, fi = x.X.Type(), x.Field
						}
						if fi >= 0 {
							if pt, ok := xt.Underlying().(*types.Pointer); ok {
								xt = pt.Elem()
							}
							if s2, ok := xt.Underlying().(*types.Struct); ok && s2 == st && fi == idx {
								hit = p.fnDisplay(g) + " at " + p.fset.Position(ins.Pos()).String()
								return
							}
						}
						var ops [16]*ssa.Value
						for _, op := range ins.Operands(ops[:0]) {
							if op == nil || *op == nil {
								continue
							}
							switch v := (*op).(type) {
							case *ssa.Function:
								visit(v)
							case *ssa.MakeClosure:
								if f2, ok := v.Fn.(*ssa.Function); ok {
									visit(f2)
								}
							}
						}
					}
				}
				for _, an := range g.AnonFuncs {
					visit(an)
				}
			}
			visit(fn)
			o := &Obligation{Name: name, Kind: "noreads", Fn: disp, Props: props, Solver: "structural"}
			if hit != "" {
				o.Result = "sat"
				o.Src = "field " + fld + " is selected in " + hit + " (" + nr.Label + ")"
			} else {
				o.Result = "unsat"
				o.Src = fmt.Sprintf("no selection of %s in the function or the %d repo functions it reaches through static calls (%s); calls through interfaces are not followed", fld, nfn-1, nr.Label)
			}
			out = append(out, o)
		}
	}
	return out
}

// onlyWriterObligations decides `onlywriter` directives structurally: no other
// repo function stores to the field (stores into an object the storing
// function has just allocated itself - composite literals - are
// initialisation and exempt), and every store to it in this function has an
// `at call store#k assert` hook, so the condition under which it is written
// is an obligation.
func (p *Prog) onlyWriterObligations(fn *ssa.Function, con *Contract, disp string, e *Enc) []*Obligation {
	var out []*Obligation
	for _, nr := range con.OnlyWriter {
		props := nr.Props
		if len(props) == 0 {
			props = con.Props
		}
		for _, fld := range nr.Fields {
			i := strings.LastIndex(fld, ".")
			name := disp + "#onlywriter:" + fld
			var st *types.Struct
			if i > 0 {
				if ty := p.lookupQualifiedType(fld[:i]); ty != nil {
					st, _ = ty.Underlying().(*types.Struct)
				}
			}
			idx := -1
			if st != nil {
				for j := 0; j < st.NumFields(); j++ {
					if st.Field(j).Name() == fld[i+1:] {
						idx = j
					}
				}
			}
			if idx < 0 {
				out = append(out, &Obligation{Name: name, Kind: "onlywriter", Fn: disp, Props: props, Solver: "structural", Result: "sat",
					Src: "onlywriter: " + fld + " is not a field of a struct type of the program"})
				continue
			}
			isField := func(a ssa.Value) (*ssa.FieldAddr, bool) {
				fa, ok := a.(*ssa.FieldAddr)
				if !ok || fa.Field != idx {
					return nil, false
				}
				xt := fa.X.Type()
				if pt, ok := xt.Underlying().(*types.Pointer); ok {
					xt = pt.Elem()
				}
				s2, ok := xt.Underlying().(*types.Struct)
				return fa, ok && s2 == st
			}
			var bad []string
			var keys []string
			for k := range p.funcs {
				keys = append(keys, k)
			}
			sort.Strings(keys)
			for _, k := range keys {
				g := p.funcs[k]
				if !p.inRepo(g) || g.Blocks == nil {
					continue
				}
				ord := 0
				for _, b := range g.Blocks {
					for _, ins := range b.Instrs {
						stIns, ok := ins.(*ssa.Store)
						if !ok {
							continue
						}
						hookable := false
						switch stIns.Addr.(type) {
						case *ssa.IndexAddr, *ssa.FieldAddr:
							hookable = true
						}
						myOrd := ord
						if hookable {
							ord++
						}
						fa, ok := isField(stIns.Addr)
						if !ok {
							continue
						}
						if al, isAlloc := fa.X.(*ssa.Alloc); isAlloc && al.Heap {
							continue // initialising an object this function has just allocated
						}
						if g != fn {
							bad = append(bad, p.fnDisplay(g)+" stores to it at "+p.fset.Position(ins.Pos()).String())
							continue
						}
						key := fmt.Sprintf("store#%d", myOrd)
						hooked := false
						for _, h := range con.AtCalls[key] {
							if h.Kind == "assert" {
								hooked = true
							}
						}
						if !hooked {
							bad = append(bad, fmt.Sprintf("%s of this function (at %s) stores to it without an `at call %s assert` hook", key, p.fset.Position(ins.Pos()).String(), key))
						}
					}
				}
			}
			o := &Obligation{Name: name, Kind: "onlywriter", Fn: disp, Props: props, Solver: "structural"}
			if len(bad) > 0 {
				o.Result = "sat"
				o.Src = "field " + fld + ": " + strings.Join(bad, "; ") + " (" + nr.Label + ")"
			} else {
				o.Result = "unsat"
				o.Src = "no other repo function stores to " + fld + " (initialisation of freshly allocated objects aside) and every store in this function is under a hooked assertion (" + nr.Label + ")"
			}
			out = append(out, o)
		}
	}
	return out
}
