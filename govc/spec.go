package main

// Contract files: comment-only Go files (`//go:build verif`) in /repo packages
// and /verif/spec/*.spec for assumed contracts of dependencies. Every
// directive is a `//@` line.

import (
	"bufio"
	"fmt"
	"go/ast"
	"go/parser"
	"os"
	"regexp"
	"strconv"
	"strings"
)

type Clause struct {
	Label string
	Src   string
	Expr  ast.Expr
	Props []string // nil = inherit the function's props
	Line  int
	Trusted bool // postcondition assumed at call sites but not proved for the function itself (listed as an assumption)
}

// Taint: `taint <specfn> const`, `taint <specfn> field <pkg.Type.Field> ...`.
// In functions of the declaring package, every string constant (Consts) and
// every value loaded from a listed field satisfies the predicate; a
// concatenation of strings that satisfy it satisfies it, and so does a
// substring. These are ground facts added at the instruction that produces the
// value (listed as assumptions: the predicate's meaning for constants and
// fields is the contract author's claim).
type Taint struct {
	Fn      string
	PkgPath string
	Consts  bool
	Fields  map[string]bool
}

type LoopSpec struct {
	Invariants []Clause
	Decreases  []Clause // lexicographic
	NoTerm     bool     // termination explicitly not claimed
	OrderFree  bool     // map-range loop: order independence not checked (reason recorded)
	ExitAny    bool     // map-range loop: which exiting iteration comes first is declared irrelevant
	OrderReason string
	Bags       []string // slice variables compared as multisets (sorted before use)
	AtExit      []Clause // conditions that hold on every edge leaving the loop (checked there)
	OrderAssume []Clause // facts about the iterated map assumed (not proved) by the order check; each is listed as an assumption
}

type GhostStmt struct {
	Kind  string // "assert" | "set" | "assume"
	Var   string
	C     Clause
	After bool // evaluated after the call (res bound)
	NoGuard bool // `forbid`: an assertion about calls that should not exist; it need not match any call site
}

type GhostDecl struct {
	Name string
	Type string
	Init Clause
}

type Contract struct {
	Key      string // function key relative to package (ssa RelString) or full name for externs
	PkgPath  string
	Extern   bool // assumed, body never verified
	Trusted  bool // in-repo function whose contract is assumed (body outside the subset)
	Props    []string
	Requires []Clause
	Ensures  []Clause
	Panics   []Clause // exceptional postconditions: condition (over old state) under which a panic is permitted
	Modifies []Clause
	ModAll   bool
	AbstractFloats bool // float operations are uninterpreted functions (same symbols in code and spec)
	Notes        []string // assumptions stated by the contract author, copied into the evidence
	Inline       bool // callers encode the body instead of using the contract (the contract is still verified for the function itself)
	SplitReturns bool // check the postconditions once per path into a shared return block (no heap merge)
	NoConvContents bool // string([]byte): model only the length (keeps a quantified fact out of functions that do not need it)
	NoReads      []NoReads
	OnlyWriter   []NoReads
	FieldTypes   []NoReads
	OnlyCallers  []NoReads
	NoMethods    []NoReads
	StringsExact bool // model the contents of concatenated strings (quantified axioms)
	UntilClosed  bool // `untilclosed` (on a trusted function): its body must be a receive loop that ends only when the channel is closed (structural obligation trusted.shape)
	IntRange     bool // `intrange`: int / int64 values read from memory, parameters and results lie in the 64-bit range (they do); arithmetic stays mathematical
	Handler  bool // deferred recover handler: recover() yields an arbitrary value
	RecoverBy string // callee key of the deferred recover handler: runtime panics after its Defer are converted to errors
	FieldsOf []Clause // under modifies *: struct fields may change only at these objects (other objects of the type are preserved)
	PanicEnsures []Clause // must hold whenever a panic propagates out of the function (after its deferred calls ran)
	OnPanic  []Clause // handler contracts: what the handler guarantees when it runs during a panic
	MapWrites string // predicate every written map must satisfy (write confinement for maps)
	AtEntry  []GhostStmt // ghost statements run at function entry
	Preserves []string // heap variables whose pre-existing objects stay unchanged even under modifies *
	Pure     bool // declared to modify no pre-existing heap location (checked)
	NoReturn bool
	Loops    map[int]*LoopSpec
	AtCalls  map[string][]GhostStmt
	Ghosts   []GhostDecl
	Safety   bool // generate runtime-panic obligations
	NoTermAll bool // termination of the function's loops is not claimed
	SafetyOff map[string]bool // kinds of runtime-panic obligations not generated (permitted exits)
	MayPanic bool // explicit panics are a permitted exit (default true)
	File     string
	Line     int
	Reason   string // for trusted: why
	ParamNames []string // for functype/iface contracts: names of the parameters
	Measure  []Clause // function-level termination measure (lexicographic), for recursion
	Stack    []Clause // `stackbound e, k`: lexicographic tuple over bounded naturals that decreases along every call between functions that carry one (bounds the depth of the call stack); the last component must be an integer literal
	Like     string // functype contract whose clauses are included (self = this function)
}

type Pred struct {
	Name    string
	Params  []string
	PTypes  []string
	Body    Clause
	PkgPath string
}

type SpecFn struct {
	Name    string
	Params  []string
	PTypes  []string
	RType   string
	PkgPath string
}

type Axiom struct {
	C       Clause
	PkgPath string
}

type Specs struct {
	Contracts map[string]*Contract // full key: pkgpath + "::" + relkey, externs: fullname
	Preds     map[string]*Pred     // pkgpath::name and bare name fallback
	SpecFns   map[string]*SpecFn
	Taints    []*Taint // per package: a predicate that string constants / listed fields satisfy and that concatenation and slicing preserve
	Axioms    []Axiom
	GGhosts   map[string]string // package-level ghost variables: "pkgpath.name" -> type
	GhostFields map[string]string // "pkgpath.Type.field" -> type
	InitTable []Axiom // per package: checked at the end of the package initialiser only (mutable registries)
	GlobalInv []Axiom // per package: holds after init, globals it mentions are never written again
	Tables    []*TableSpec
}

// TableSpec: obligations on package-level tables after init.
type TableSpec struct {
	PkgPath string
	Name    string
	Props   []string
	Clauses []Clause
}

func newSpecs() *Specs {
	return &Specs{Contracts: map[string]*Contract{}, Preds: map[string]*Pred{}, SpecFns: map[string]*SpecFn{}, GhostFields: map[string]string{}, GGhosts: map[string]string{}}
}

var reImplies = regexp.MustCompile(`==>`)

// parseSpecExpr parses a contract expression. `a ==> b` (lowest precedence,
// right associative) is rewritten to implies(a, b) before go/parser sees it.
func parseSpecExpr(src string) (ast.Expr, error) {
	src = strings.TrimSpace(src)
	rew, err := rewriteImplies(src)
	if err != nil {
		return nil, err
	}
	e, err := parser.ParseExpr(rew)
	if err != nil {
		return nil, fmt.Errorf("parse %q: %v", src, err)
	}
	return e, nil
}

// rewriteImplies rewrites top-level (per parenthesis nesting) ==> into implies(..).
func rewriteImplies(s string) (string, error) {
	// find the first top-level ==> outside parens/strings
	depth := 0
	inStr := byte(0)
	for i := 0; i < len(s); i++ {
		c := s[i]
		if inStr != 0 {
			if c == '\\' {
				i++
			} else if c == inStr {
				inStr = 0
			}
			continue
		}
		switch c {
		case '"', '\'', '`':
			inStr = c
		case '(', '[', '{':
			depth++
		case ')', ']', '}':
			depth--
		case '=':
			if depth == 0 && strings.HasPrefix(s[i:], "==>") {
				l, err := rewriteImplies(s[:i])
				if err != nil {
					return "", err
				}
				r, err := rewriteImplies(s[i+3:])
				if err != nil {
					return "", err
				}
				return "implies(" + l + ", " + r + ")", nil
			}
		}
	}
	// recurse into parenthesised groups
	var out strings.Builder
	depth = 0
	start := -1
	inStr = 0
	for i := 0; i < len(s); i++ {
		c := s[i]
		if inStr != 0 {
			if depth == 0 {
				out.WriteByte(c)
			}
			if c == '\\' && i+1 < len(s) {
				i++
				if depth == 0 {
					out.WriteByte(s[i])
				}
			} else if c == inStr {
				inStr = 0
			}
			continue
		}
		switch c {
		case '"', '\'', '`':
			inStr = c
			if depth == 0 {
				out.WriteByte(c)
			}
		case '(', '[', '{':
			if depth == 0 {
				out.WriteByte(c)
				start = i + 1
			}
			depth++
		case ')', ']', '}':
			depth--
			if depth == 0 {
				inner := s[start:i]
				if strings.Contains(inner, "==>") {
					// split on top-level commas so call args are handled separately
					parts := splitTop(inner, ',')
					for k, p := range parts {
						r, err := rewriteImplies(p)
						if err != nil {
							return "", err
						}
						if k > 0 {
							out.WriteByte(',')
						}
						out.WriteString(r)
					}
				} else {
					out.WriteString(inner)
				}
				out.WriteByte(c)
			}
		default:
			if depth == 0 {
				out.WriteByte(c)
			}
		}
	}
	return out.String(), nil
}

func splitTop(s string, sep byte) []string {
	var parts []string
	depth := 0
	inStr := byte(0)
	last := 0
	for i := 0; i < len(s); i++ {
		c := s[i]
		if inStr != 0 {
			if c == '\\' {
				i++
			} else if c == inStr {
				inStr = 0
			}
			continue
		}
		switch c {
		case '"', '\'', '`':
			inStr = c
		case '(', '[', '{':
			depth++
		case ')', ']', '}':
			depth--
		default:
			if c == sep && depth == 0 {
				parts = append(parts, s[last:i])
				last = i + 1
			}
		}
	}
	parts = append(parts, s[last:])
	return parts
}

// NoReads: a structural read-confinement obligation (see verify.go noReadsObligations).
type NoReads struct {
	Label  string
	Props  []string
	Fields []string
}

var reValueMethod = regexp.MustCompile(`^([A-Za-z_]\w*)\.([A-Za-z_]\w*)$`)

var reLabel = regexp.MustCompile(`^\[([^\]]*)\]\s*`)

// parseClause parses "[label;C01,C02] expr" (label and props optional).
func parseClause(rest string, line int) (Clause, error) {
	c := Clause{Line: line}
	rest = strings.TrimSpace(rest)
	if m := reLabel.FindStringSubmatch(rest); m != nil && !strings.HasPrefix(rest, "[]") {
		inner := m[1]
		rest = rest[len(m[0]):]
		parts := strings.SplitN(inner, ";", 2)
		c.Label = strings.TrimSpace(parts[0])
		if len(parts) == 2 {
			for _, p := range strings.Split(parts[1], ",") {
				if p = strings.TrimSpace(p); p != "" {
					c.Props = append(c.Props, p)
				}
			}
		}
	}
	c.Src = rest
	e, err := parseSpecExpr(rest)
	if err != nil {
		return c, err
	}
	c.Expr = e
	return c, nil
}

// loadSpecFile parses one contract file. pkgPath is the package the file
// belongs to ("" for the external spec, where keys are full names).
func (sp *Specs) loadSpecFile(path, pkgPath string) error {
	f, err := os.Open(path)
	if err != nil {
		return err
	}
	defer f.Close()
	sc := bufio.NewScanner(f)
	sc.Buffer(make([]byte, 1<<20), 1<<20)
	var cur *Contract
	var curLoop *LoopSpec
	var curTable *TableSpec
	lineNo := 0
	var pending string
	for sc.Scan() {
		lineNo++
		line := strings.TrimSpace(sc.Text())
		if !strings.HasPrefix(line, "//@") {
			continue
		}
		line = strings.TrimSpace(line[3:])
		if line == "" {
			continue
		}
		if strings.HasSuffix(line, "\\") {
			pending += strings.TrimSuffix(line, "\\") + " "
			continue
		}
		line = pending + line
		pending = ""
		if i := strings.Index(line, " //"); i >= 0 && !strings.Contains(line[i:], "\"") && !strings.Contains(line[i:], "'") {
			line = strings.TrimSpace(line[:i])
		}
		word, rest := line, ""
		if i := strings.IndexAny(line, " \t["); i >= 0 {
			word, rest = line[:i], strings.TrimSpace(line[i:])
		}
		fail := func(err error) error {
			return fmt.Errorf("%s:%d: %v", path, lineNo, err)
		}
		switch word {
		case "pkg":
			pkgPath = rest
		case "func", "extern", "trusted", "functype", "iface":
			key := rest
			reason := ""
			if i := strings.Index(rest, " -- "); i >= 0 {
				key, reason = strings.TrimSpace(rest[:i]), strings.TrimSpace(rest[i+4:])
			}
			if m := reValueMethod.FindStringSubmatch(key); m != nil && word != "extern" && word != "functype" && word != "iface" {
				key = "(" + m[1] + ")." + m[2]
			}
			cur = &Contract{Key: key, PkgPath: pkgPath, Loops: map[int]*LoopSpec{}, AtCalls: map[string][]GhostStmt{}, File: path, Line: lineNo, Safety: true, MayPanic: true, Reason: reason}
			cur.Extern = word == "extern"
			cur.Trusted = word == "trusted"
			curLoop = nil
			curTable = nil
			full := key
			if pkgPath != "" && !cur.Extern {
				full = pkgPath + "::" + key
			}
			if word == "functype" {
				full = "functype:" + key
				if pkgPath != "" && !strings.Contains(key, "/") && key != "*" {
					full = "functype:" + pkgPath + "." + key
				}
			}
			if word == "iface" {
				full = "iface:" + key
				if pkgPath != "" && !strings.Contains(key, "/") {
					full = "iface:" + pkgPath + "." + key
				}
			}
			if _, dup := sp.Contracts[full]; dup {
				return fail(fmt.Errorf("duplicate contract %s", full))
			}
			sp.Contracts[full] = cur
		case "table":
			curTable = &TableSpec{PkgPath: pkgPath, Name: rest}
			cur = nil
			curLoop = nil
			sp.Tables = append(sp.Tables, curTable)
		case "props":
			ps := strings.Fields(strings.ReplaceAll(rest, ",", " "))
			if curTable != nil {
				curTable.Props = ps
			} else if cur != nil {
				cur.Props = ps
			}
		case "check":
			if curTable == nil {
				return fail(fmt.Errorf("check outside table"))
			}
			c, err := parseClause(rest, lineNo)
			if err != nil {
				return fail(err)
			}
			curTable.Clauses = append(curTable.Clauses, c)
		case "requires", "ensures", "trustedensures", "panics", "invariant", "atexit", "modifies", "decreases":
			if cur == nil {
				return fail(fmt.Errorf("%s outside func", word))
			}
			if word == "modifies" {
				if rest == "*" {
					cur.ModAll = true
					continue
				}
				for _, p := range splitTop(rest, ',') {
					c, err := parseClause(p, lineNo)
					if err != nil {
						return fail(err)
					}
					cur.Modifies = append(cur.Modifies, c)
				}
				continue
			}
			if word == "decreases" {
				if curLoop == nil {
					return fail(fmt.Errorf("decreases outside loop"))
				}
				for _, p := range splitTop(rest, ',') {
					c, err := parseClause(p, lineNo)
					if err != nil {
						return fail(err)
					}
					curLoop.Decreases = append(curLoop.Decreases, c)
				}
				continue
			}
			c, err := parseClause(rest, lineNo)
			if err != nil {
				return fail(err)
			}
			switch word {
			case "requires":
				cur.Requires = append(cur.Requires, c)
			case "ensures":
				cur.Ensures = append(cur.Ensures, c)
			case "trustedensures":
				c.Trusted = true
				cur.Ensures = append(cur.Ensures, c)
			case "panics":
				cur.Panics = append(cur.Panics, c)
			case "invariant":
				if curLoop == nil {
					return fail(fmt.Errorf("invariant outside loop"))
				}
				curLoop.Invariants = append(curLoop.Invariants, c)
			case "atexit":
				if curLoop == nil {
					return fail(fmt.Errorf("atexit outside loop"))
				}
				curLoop.AtExit = append(curLoop.AtExit, c)
			}
		case "params":
			cur.ParamNames = strings.Fields(strings.ReplaceAll(rest, ",", " "))
		case "like":
			cur.Like = rest
		case "abstractfloats":
			cur.AbstractFloats = true
		case "note":
			if cur == nil {
				return fail(fmt.Errorf("note outside func"))
			}
			cur.Notes = append(cur.Notes, rest)
		case "inline":
			cur.Inline = true
		case "splitreturns":
			cur.SplitReturns = true
		case "noconvcontents":
			cur.NoConvContents = true
		case "stringsexact":
			cur.StringsExact = true
		case "intrange":
			cur.IntRange = true
		case "untilclosed":
			cur.UntilClosed = true
		case "handler":
			cur.Handler = true
		case "recoverby":
			cur.RecoverBy = rest
		case "panicensures", "onpanic":
			c, err := parseClause(rest, lineNo)
			if err != nil {
				return fail(err)
			}
			if word == "onpanic" {
				cur.OnPanic = append(cur.OnPanic, c)
			} else {
				cur.PanicEnsures = append(cur.PanicEnsures, c)
			}
		case "fieldsof":
			c, err := parseClause(rest, lineNo)
			if err != nil {
				return fail(err)
			}
			cur.FieldsOf = append(cur.FieldsOf, c)
		case "onlycallers", "nomethod":
			// onlycallers[label;props] <callerKey>... : only the listed repo functions call this one
			// nomethod[label;props] pkg.Type.Method ... : the named methods do not exist
			nr := NoReads{}
			r := strings.TrimSpace(rest)
			if m := reLabel.FindStringSubmatch(r); m != nil {
				parts := strings.SplitN(m[1], ";", 2)
				nr.Label = strings.TrimSpace(parts[0])
				if len(parts) == 2 {
					for _, pr := range strings.Split(parts[1], ",") {
						if pr = strings.TrimSpace(pr); pr != "" {
							nr.Props = append(nr.Props, pr)
						}
					}
				}
				r = r[len(m[0]):]
			}
			nr.Fields = strings.Fields(r)
			if len(nr.Fields) == 0 {
				return fail(fmt.Errorf("%s: names expected", word))
			}
			if word == "onlycallers" {
				cur.OnlyCallers = append(cur.OnlyCallers, nr)
			} else {
				cur.NoMethods = append(cur.NoMethods, nr)
			}
		case "fieldtype":
			// fieldtype[label;props] pkg.Type.Field <type> : the field has exactly this type (a
			// design decision a proof rests on, e.g. "the state holds a COPY of the registry")
			nr := NoReads{}
			r := strings.TrimSpace(rest)
			if m := reLabel.FindStringSubmatch(r); m != nil {
				parts := strings.SplitN(m[1], ";", 2)
				nr.Label = strings.TrimSpace(parts[0])
				if len(parts) == 2 {
					for _, pr := range strings.Split(parts[1], ",") {
						if pr = strings.TrimSpace(pr); pr != "" {
							nr.Props = append(nr.Props, pr)
						}
					}
				}
				r = r[len(m[0]):]
			}
			nr.Fields = strings.Fields(r)
			if len(nr.Fields) != 2 {
				return fail(fmt.Errorf("fieldtype: <pkg.Type.Field> <type> expected"))
			}
			cur.FieldTypes = append(cur.FieldTypes, nr)
		case "onlywriter":
			// onlywriter[label;props] pkg.Type.Field ... : this function is the only one in the
			// repository that stores to the field (initialisation of a freshly allocated object
			// aside), and each of its stores to it carries an `at call store#k assert` hook
			nr := NoReads{}
			r := strings.TrimSpace(rest)
			if m := reLabel.FindStringSubmatch(r); m != nil {
				parts := strings.SplitN(m[1], ";", 2)
				nr.Label = strings.TrimSpace(parts[0])
				if len(parts) == 2 {
					for _, pr := range strings.Split(parts[1], ",") {
						if pr = strings.TrimSpace(pr); pr != "" {
							nr.Props = append(nr.Props, pr)
						}
					}
				}
				r = r[len(m[0]):]
			}
			nr.Fields = strings.Fields(r)
			if len(nr.Fields) == 0 {
				return fail(fmt.Errorf("onlywriter: field names expected"))
			}
			cur.OnlyWriter = append(cur.OnlyWriter, nr)
		case "noreads":
			// noreads[label;props] pkg.Type.Field ... : neither the function nor any repo function it
			// (transitively, statically) calls selects one of these fields
			nr := NoReads{}
			r := strings.TrimSpace(rest)
			if m := reLabel.FindStringSubmatch(r); m != nil {
				parts := strings.SplitN(m[1], ";", 2)
				nr.Label = strings.TrimSpace(parts[0])
				if len(parts) == 2 {
					for _, pr := range strings.Split(parts[1], ",") {
						if pr = strings.TrimSpace(pr); pr != "" {
							nr.Props = append(nr.Props, pr)
						}
					}
				}
				r = r[len(m[0]):]
			}
			nr.Fields = strings.Fields(r)
			if len(nr.Fields) == 0 {
				return fail(fmt.Errorf("noreads: field names expected"))
			}
			cur.NoReads = append(cur.NoReads, nr)
		case "mapwrites":
			cur.MapWrites = rest
		case "preserves":
			cur.Preserves = append(cur.Preserves, strings.Fields(rest)...)
		case "pure":
			cur.Pure = true
		case "noreturn":
			cur.NoReturn = true
		case "nosafety":
			if rest == "" {
				cur.Safety = false
			} else {
				if cur.SafetyOff == nil {
					cur.SafetyOff = map[string]bool{}
				}
				for _, k := range strings.Fields(rest) {
					cur.SafetyOff[k] = true
				}
			}
		case "nopanic":
			cur.MayPanic = false
		case "noterm":
			if curLoop != nil {
				curLoop.NoTerm = true
			} else if cur != nil {
				cur.NoTermAll = true
			}
		case "orderfree", "exitany":
			if curLoop == nil {
				return fail(fmt.Errorf("%s outside loop", word))
			}
			if word == "orderfree" {
				curLoop.OrderFree = true
			} else {
				curLoop.ExitAny = true
			}
			curLoop.OrderReason = strings.TrimSpace(strings.TrimPrefix(rest, "--"))
		case "orderassume":
			if curLoop == nil {
				return fail(fmt.Errorf("orderassume outside loop"))
			}
			c, err := parseClause(rest, lineNo)
			if err != nil {
				return fail(err)
			}
			curLoop.OrderAssume = append(curLoop.OrderAssume, c)
		case "bag":
			if curLoop == nil {
				return fail(fmt.Errorf("bag outside loop"))
			}
			curLoop.Bags = append(curLoop.Bags, strings.Fields(rest)...)
		case "loop":
			n, err := strconv.Atoi(rest)
			if err != nil || cur == nil {
				return fail(fmt.Errorf("bad loop directive"))
			}
			if curLoop = cur.Loops[n]; curLoop == nil {
				curLoop = &LoopSpec{}
				cur.Loops[n] = curLoop
			}
		case "ghost":
			// ghost name type = init
			parts := strings.SplitN(rest, "=", 2)
			fs := strings.Fields(parts[0])
			if len(fs) != 2 || len(parts) != 2 || cur == nil {
				return fail(fmt.Errorf("bad ghost decl"))
			}
			c, err := parseClause(parts[1], lineNo)
			if err != nil {
				return fail(err)
			}
			cur.Ghosts = append(cur.Ghosts, GhostDecl{Name: fs[0], Type: fs[1], Init: c})
		case "at":
			// at call <callee>#<n> [after] assert <e> | set <v> = <e>
			fs := strings.Fields(rest)
			if len(fs) >= 4 && fs[0] == "entry" && fs[1] == "set" && cur != nil {
				body := strings.TrimSpace(strings.SplitN(rest, " set ", 2)[1])
				parts := strings.SplitN(body, "=", 2)
				c, err := parseClause(parts[1], lineNo)
				if err != nil {
					return fail(err)
				}
				cur.AtEntry = append(cur.AtEntry, GhostStmt{Kind: "set", Var: strings.TrimSpace(parts[0]), C: c})
				continue
			}
			if len(fs) < 4 || fs[0] != "call" || cur == nil {
				return fail(fmt.Errorf("bad at directive"))
			}
			key := fs[1]
			idx := 2
			after := false
			if fs[idx] == "after" {
				after = true
				idx++
			}
			kind := fs[idx]
			body := strings.TrimSpace(strings.SplitN(rest, " "+kind+" ", 2)[1])
			if i := strings.Index(kind, "["); i > 0 {
				body = kind[i:] + " " + body
				kind = kind[:i]
			}
			gs := GhostStmt{Kind: kind, After: after}
			if kind == "forbid" {
				gs.Kind, gs.NoGuard = "assert", true
			}
			if kind == "set" {
				parts := strings.SplitN(body, "=", 2)
				gs.Var = strings.TrimSpace(parts[0])
				body = parts[1]
			}
			c, err := parseClause(body, lineNo)
			if err != nil {
				return fail(err)
			}
			gs.C = c
			cur.AtCalls[key] = append(cur.AtCalls[key], gs)
		case "pred":
			// pred name(a T, b U) = expr
			i := strings.Index(rest, "(")
			j := strings.Index(rest, ")")
			k := strings.Index(rest, "=")
			if i < 0 || j < i || k < j {
				return fail(fmt.Errorf("bad pred"))
			}
			p := &Pred{Name: strings.TrimSpace(rest[:i]), PkgPath: pkgPath}
			for _, prm := range splitTop(rest[i+1:j], ',') {
				fs := strings.Fields(prm)
				if len(fs) == 0 {
					continue
				}
				p.Params = append(p.Params, fs[0])
				p.PTypes = append(p.PTypes, strings.Join(fs[1:], " "))
			}
			c, err := parseClause(rest[k+1:], lineNo)
			if err != nil {
				return fail(err)
			}
			p.Body = c
			sp.Preds[pkgPath+"::"+p.Name] = p
			if _, ok := sp.Preds[p.Name]; !ok {
				sp.Preds[p.Name] = p
			}
		case "taint":
			fs := strings.Fields(rest)
			if len(fs) < 2 {
				return fail(fmt.Errorf("taint <specfn> const | field <pkg.Type.Field>..."))
			}
			var t *Taint
			for _, x := range sp.Taints {
				if x.Fn == fs[0] && x.PkgPath == pkgPath {
					t = x
				}
			}
			if t == nil {
				t = &Taint{Fn: fs[0], PkgPath: pkgPath, Fields: map[string]bool{}}
				sp.Taints = append(sp.Taints, t)
			}
			switch fs[1] {
			case "const":
				t.Consts = true
			case "field":
				for _, f := range fs[2:] {
					t.Fields[f] = true
				}
			default:
				return fail(fmt.Errorf("taint: const or field expected"))
			}
		case "specfn":
			// specfn name(a T) R
			i := strings.Index(rest, "(")
			j := strings.LastIndex(rest, ")")
			if i < 0 || j < i {
				return fail(fmt.Errorf("bad specfn"))
			}
			f := &SpecFn{Name: strings.TrimSpace(rest[:i]), RType: strings.TrimSpace(rest[j+1:]), PkgPath: pkgPath}
			for _, prm := range splitTop(rest[i+1:j], ',') {
				fs := strings.Fields(prm)
				if len(fs) == 0 {
					continue
				}
				f.Params = append(f.Params, fs[0])
				f.PTypes = append(f.PTypes, strings.Join(fs[1:], " "))
			}
			sp.SpecFns[pkgPath+"::"+f.Name] = f
			if _, ok := sp.SpecFns[f.Name]; !ok {
				sp.SpecFns[f.Name] = f
			}
		case "gghost":
			fs := strings.Fields(rest)
			if len(fs) != 2 {
				return fail(fmt.Errorf("gghost name type"))
			}
			sp.GGhosts[pkgPath+"."+fs[0]] = fs[1]
		case "ghostfield":
			// ghostfield Type.field type
			fs := strings.Fields(rest)
			if len(fs) != 2 || !strings.Contains(fs[0], ".") {
				return fail(fmt.Errorf("ghostfield Type.field type"))
			}
			sp.GhostFields[pkgPath+"."+fs[0]] = fs[1]
		case "measure":
			if cur == nil {
				return fail(fmt.Errorf("measure outside func"))
			}
			for _, p := range splitTop(rest, ',') {
				c, err := parseClause(p, lineNo)
				if err != nil {
					return fail(err)
				}
				cur.Measure = append(cur.Measure, c)
			}
		case "stackbound":
			if cur == nil {
				return fail(fmt.Errorf("stackbound outside func"))
			}
			ps := splitTop(rest, ',')
			if len(ps) != 2 {
				return fail(fmt.Errorf("stackbound <expr>, <rank literal>"))
			}
			if _, err := strconv.Atoi(strings.TrimSpace(ps[1])); err != nil {
				return fail(fmt.Errorf("stackbound: the rank must be an integer literal (it has to be bounded by a constant)"))
			}
			for _, p := range ps {
				c, err := parseClause(p, lineNo)
				if err != nil {
					return fail(err)
				}
				cur.Stack = append(cur.Stack, c)
			}
		case "inittable":
			c, err := parseClause(rest, lineNo)
			if err != nil {
				return fail(err)
			}
			sp.InitTable = append(sp.InitTable, Axiom{C: c, PkgPath: pkgPath})
		case "globalinv":
			c, err := parseClause(rest, lineNo)
			if err != nil {
				return fail(err)
			}
			sp.GlobalInv = append(sp.GlobalInv, Axiom{C: c, PkgPath: pkgPath})
		case "axiom":
			c, err := parseClause(rest, lineNo)
			if err != nil {
				return fail(err)
			}
			sp.Axioms = append(sp.Axioms, Axiom{C: c, PkgPath: pkgPath})
		default:
			return fail(fmt.Errorf("unknown directive %q", word))
		}
	}
	return sc.Err()
}

// resolveLikes copies the clauses of function-type contracts into the
// contracts that declare `like <type>`.
func (sp *Specs) resolveLikes() error {
	for k, c := range sp.Contracts {
		if c.Like == "" {
			continue
		}
		key := "functype:" + c.Like
		if !strings.Contains(c.Like, "/") && !strings.Contains(c.Like, ".") {
			key = "functype:" + c.PkgPath + "." + c.Like
		}
		ft := sp.Contracts[key]
		if ft == nil {
			return fmt.Errorf("%s: like %s: no such functype contract (%s)", k, c.Like, key)
		}
		c.Requires = append(append([]Clause{}, ft.Requires...), c.Requires...)
		c.Ensures = append(append([]Clause{}, ft.Ensures...), c.Ensures...)
		if len(c.Modifies) == 0 && !c.ModAll {
			c.Modifies = ft.Modifies
			c.ModAll = ft.ModAll
		}
		if len(c.Props) == 0 {
			c.Props = ft.Props
		}
		c.Preserves = append(c.Preserves, ft.Preserves...)
		c.Safety = c.Safety && ft.Safety
		c.NoTermAll = c.NoTermAll || ft.NoTermAll
		if c.MapWrites == "" {
			c.MapWrites = ft.MapWrites
		}
		c.FieldsOf = append(c.FieldsOf, ft.FieldsOf...)
	}
	return nil
}

func (c *Contract) measureOf() []Clause {
	if c == nil {
		return nil
	}
	return c.Measure
}

func (c *Contract) stackOf() []Clause {
	if c == nil {
		return nil
	}
	return c.Stack
}
