package main

import (
	"context"
	"flag"
	"fmt"
	"os"
	"sort"
	"strings"
	"time"

	"golang.org/x/tools/go/ssa"
)

func main() {
	if len(os.Args) < 2 {
		fmt.Fprintln(os.Stderr, "usage: govc func|dump|check|list ...")
		os.Exit(2)
	}
	cmd := os.Args[1]
	fs := flag.NewFlagSet(cmd, flag.ExitOnError)
	repo := fs.String("repo", "/repo", "repository root")
	specDir := fs.String("spec", "/verif/spec", "external spec dir")
	timeout := fs.Int("timeout", 10, "per-query timeout (s)")
	workers := fs.Int("j", 12, "parallel queries")
	verbose := fs.Bool("v", false, "verbose")
	keep := fs.String("keep", "", "keep query files in this dir")
	show := fs.String("show", "", "print the goal of obligations whose name contains this")
	prop := fs.String("prop", "", "property id")
	tier := fs.String("tier", "quick", "quick|thorough")
	out := fs.String("outdir", "/verif", "where evidence/ and replay/ are written")
	noReplay := fs.Bool("noreplay", false, "do not run replay tests")
	fs.Parse(os.Args[2:])
	outDir = *out
	skipReplay = *noReplay
	if cmd == "selfcheck" {
		os.Exit(selfcheck())
	}
	t0 := time.Now()
	p, err := loadProg(*repo, *specDir)
	if err != nil {
		fmt.Fprintln(os.Stderr, "load:", err)
		os.Exit(2)
	}
	if *verbose {
		fmt.Fprintf(os.Stderr, "loaded in %.1fs\n", time.Since(t0).Seconds())
	}
	switch cmd {
	case "dump":
		for _, k := range fs.Args() {
			fn := p.findFunc(k)
			if fn == nil {
				fmt.Println("not found:", k)
				continue
			}
			dumpFunc(p, fn)
		}
	case "func":
		code := 0
		for _, k := range fs.Args() {
			fn := p.findFunc(k)
			if fn == nil {
				fmt.Println("not found:", k)
				code = 2
				continue
			}
			con := p.contractFor(fn)
			res := p.verifyFunction(fn, con)
			dir := *keep
			if dir == "" {
				dir, _ = os.MkdirTemp("", "govc")
			}
			res.Obls = dischargeGroups(res.Obls, dir, *timeout, *workers)
			if *keep == "" {
				os.RemoveAll(dir) // (a deferred removal would be skipped by os.Exit below)
			}
			printResult(res, *verbose)
			if *show != "" {
				for _, o := range res.Obls {
					if strings.Contains(o.Name, *show) {
						lines := strings.Split(strings.TrimSpace(o.Query), "\n")
						fmt.Println("--- goal of", o.Name)
						for _, l := range lines[len(lines)-2:] {
							fmt.Println(l)
						}
					}
				}
			}
			for _, o := range res.Obls {
				if !o.ok() {
					code = 1
				}
			}
		}
		os.Exit(code)
	case "mapranges":
		listMapRanges(p)
	case "structscan":
		printStructFindings("global state (soyhtml, soyjs, soymsg, data, template, ast, parsepasses, root):", p.globalStateScan([]string{"/soyhtml", "/soyjs", "/soymsg", "/data", "/template", "/ast", "/parsepasses", ""}))
		printStructFindings("recover sites:", p.recoverSiteScan([]string{"/soyhtml", "/soyjs", "/parse", "/parsepasses", "/data", ""}))
		printStructFindings("recursion (functions on call-graph cycles), all packages:", p.stackCoverScan([]string{"/parse", "/soyhtml", "/soyjs", "/soymsg", "/soymsg/pomsg", "/data", "/template", "/ast", "/parsepasses", ""}))
	case "keys":
		for _, a := range fs.Args() {
			debugKeys(p, a)
		}
	case "uncontracted":
		// repo functions (with bodies) that have no contract, with their size in blocks
		var rows []string
		for k, fn := range p.funcs {
			if !p.inRepo(fn) || fn.Blocks == nil || fn.Synthetic != "" {
				continue
			}
			if p.specs.Contracts[k] != nil {
				continue
			}
			rows = append(rows, fmt.Sprintf("%-70s blocks=%d", strings.TrimPrefix(k, repoModule), len(fn.Blocks)))
		}
		sort.Strings(rows)
		for _, r := range rows {
			fmt.Println(r)
		}
	case "list":
		var keys []string
		for k := range p.specs.Contracts {
			keys = append(keys, k)
		}
		sort.Strings(keys)
		for _, k := range keys {
			c := p.specs.Contracts[k]
			fmt.Println(k, c.Props, map[bool]string{true: "extern", false: ""}[c.Extern])
		}
	case "check":
		os.Exit(runCheck(p, *prop, *tier, *timeout, *workers, *verbose))
	}
}

func (o *Obligation) ok() bool {
	if o.WantSat {
		return o.Result == "sat" || o.Result == "unknown" || o.Result == "timeout"
	}
	return o.Result == "unsat"
}

func (p *Prog) findFunc(k string) *ssa.Function {
	if fn, ok := p.funcs[k]; ok {
		return fn
	}
	var cands []*ssa.Function
	for key, fn := range p.funcs {
		if strings.HasSuffix(key, "::"+k) || p.fnDisplay(fn) == k {
			cands = append(cands, fn)
		}
	}
	if len(cands) == 1 {
		return cands[0]
	}
	for _, c := range cands {
		if p.inRepo(c) {
			return c
		}
	}
	return nil
}

func printResult(res *FnResult, verbose bool) {
	fmt.Printf("== %s: %d obligations, %d loops\n", res.Fn, len(res.Obls), res.Loops)
	for _, u := range res.Unsupported {
		fmt.Println("   UNSUPPORTED:", u)
	}
	for _, o := range res.Obls {
		st := "ok  "
		if !o.ok() {
			st = "FAIL"
		}
		if verbose || !o.ok() {
			fmt.Printf("  %s %-7s %-6s %5.2fs %s   [%s]\n", st, o.Result, o.Solver, o.TimeS, o.Name, o.Src)
			if !o.ok() {
				fmt.Printf("        at %s\n", o.Pos)
			}
			if !o.ok() && verbose {
				fmt.Println(indent(trimModel(o.Model), "        "))
			}
		}
	}
	if verbose {
		for _, n := range res.Notes {
			fmt.Println("   note:", n)
		}
	}
}

func trimModel(m string) string {
	lines := strings.Split(m, "\n")
	if len(lines) > 60 {
		lines = lines[:60]
	}
	return strings.Join(lines, "\n")
}

func indent(s, pre string) string {
	return pre + strings.ReplaceAll(s, "\n", "\n"+pre)
}

func dumpFunc(p *Prog, fn *ssa.Function) {
	fmt.Printf("func %s  key=%s\n", p.fnDisplay(fn), p.contractKey(fn))
	for _, li := range findLoops(fn) {
		var bl []int
		for b := range li.blocks {
			bl = append(bl, b)
		}
		sort.Ints(bl)
		pos := ""
		for _, ins := range li.header.Instrs {
			if ins.Pos().IsValid() {
				pos = p.fset.Position(ins.Pos()).String()
				break
			}
		}
		fmt.Printf("  loop %d: header block %d (%s) blocks %v %s\n", li.ordinal, li.header.Index, li.header.Comment, bl, pos)
		for _, ins := range li.header.Instrs {
			if phi, ok := ins.(*ssa.Phi); ok {
				fmt.Printf("      phi %s (%s)\n", phi.Name(), phi.Comment)
			}
		}
	}
	ord := map[string]int{}
	for _, b := range fn.Blocks {
		for _, ins := range b.Instrs {
			var cc *ssa.CallCommon
			switch x := ins.(type) {
			case *ssa.Call:
				cc = &x.Call
			case *ssa.Defer:
				cc = &x.Call
			}
			if cc != nil {
				k := p.calleeKey(fn, cc)
				fmt.Printf("  call %s#%d  block %d %s\n", k, ord[k], b.Index, p.fset.Position(ins.Pos()))
				ord[k]++
			}
			if mu, ok := ins.(*ssa.MapUpdate); ok {
				fmt.Printf("  mapupdate#%d  block %d %s\n", ord["$mapupdate"], b.Index, p.fset.Position(mu.Pos()))
				ord["$mapupdate"]++
			}
			if st, ok := ins.(*ssa.Store); ok {
				switch st.Addr.(type) {
				case *ssa.IndexAddr, *ssa.FieldAddr:
					fmt.Printf("  store#%d  block %d %s  %s\n", ord["$store"], b.Index, p.fset.Position(ins.Pos()), describe(st.Addr, 0))
					ord["$store"]++
				}
			}
		}
	}
	fn.WriteTo(os.Stdout)
}

// selfcheck: the solvers answer a trivially unsat and a trivially sat query.
func selfcheck() int {
	dir, _ := os.MkdirTemp("", "govc-self")
	defer os.RemoveAll(dir)
	okCount := 0
	for _, s := range solvers {
		f := dir + "/u.smt2"
		os.WriteFile(f, []byte("(set-logic ALL)\n(declare-const x Int)\n(assert (and (> x 0) (< x 0)))\n(check-sat)\n"), 0o644)
		r1 := runOne(context.Background(), s, f, 10)
		g := dir + "/s.smt2"
		os.WriteFile(g, []byte("(set-logic ALL)\n(declare-const x Int)\n(assert (> x 0))\n(check-sat)\n"), 0o644)
		r2 := runOne(context.Background(), s, g, 10)
		fmt.Printf("selfcheck %s: unsat-query=%s sat-query=%s\n", s.name, r1.result, r2.result)
		if r1.result == "unsat" && r2.result == "sat" {
			okCount++
		}
	}
	if okCount == 0 {
		fmt.Println("selfcheck: no working SMT solver")
		return 1
	}
	return 0
}

func init() {
	debugKeys = func(p *Prog, sub string) {
		for k := range p.funcs {
			if strings.Contains(k, sub) {
				fmt.Println(k)
			}
		}
	}
}

var debugKeys func(p *Prog, sub string)

var skipReplay bool

func listMapRanges(p *Prog) {
	obls, notes := p.mapRangeCoverage("C13", nil)
	for _, o := range obls {
		fmt.Println(o.Name, o.Pos, o.Result)
	}
	for _, n := range notes {
		fmt.Println("note:", n)
	}
}
