package main

// SMT portfolio: z3-new, z3 (4.8.12), cvc5 raced per obligation.

import (
	"sort"
	"bytes"
	"context"
	"fmt"
	"os"
	"os/exec"
	"path/filepath"
	"strings"
	"sync"
	"time"
)

type solverSpec struct {
	name string
	args func(file string, timeoutS int) []string
}

var solvers = []solverSpec{
	{"z3-new", func(f string, t int) []string { return []string{"z3-new", fmt.Sprintf("-T:%d", t), f} }},
	{"z3", func(f string, t int) []string { return []string{"z3", fmt.Sprintf("-T:%d", t), f} }},
	{"cvc5", func(f string, t int) []string {
		if _, err := os.Stat(f + ".cvc5"); err == nil {
			f = f + ".cvc5"
		}
		return []string{"cvc5", "--lang=smt2", "--produce-models", fmt.Sprintf("--tlimit=%d", t*1000), f}
	}},
	{"z3-qi", func(f string, t int) []string {
		// same solver, eager quantifier instantiation: decides some goals the default configuration gives up on
		return []string{"z3-new", fmt.Sprintf("-T:%d", t), "smt.qi.eager_threshold=100", f}
	}},
}

type solveResult struct {
	result string
	solver string
	out    string
	secs   float64
}

func runOne(ctx context.Context, s solverSpec, file string, timeoutS int) solveResult {
	start := time.Now()
	args := s.args(file, timeoutS)
	cmd := exec.CommandContext(ctx, args[0], args[1:]...)
	var out bytes.Buffer
	cmd.Stdout = &out
	cmd.Stderr = &out
	cmd.Run()
	text := out.String()
	first := strings.TrimSpace(strings.SplitN(text, "\n", 2)[0])
	res := "unknown"
	switch first {
	case "sat", "unsat":
		res = first
	case "timeout":
		res = "timeout"
	}
	if res == "unknown" && strings.Contains(text, "error") && !strings.HasPrefix(first, "unknown") {
		res = "error"
	}
	return solveResult{result: res, solver: s.name, out: text, secs: time.Since(start).Seconds()}
}

// solve races the portfolio; the first definite answer wins.
func solve(query string, dir, name string, timeoutS int, wantModel bool, quickOnly bool) solveResult {
	file := filepath.Join(dir, name+".smt2")
	q := query + "(check-sat)\n"
	if wantModel {
		q += "(get-model)\n"
	}
	os.WriteFile(file, []byte(q), 0o644)
	// cvc5 has no lambda terms in first-order logics: the lambda definitions of framed
	// arrays (one per line, emitted by frameDef) become quantified equalities for it
	if strings.Contains(q, "(lambda ((r Int)) ") {
		os.WriteFile(file+".cvc5", []byte(delambda(q)), 0o644)
	}
	// stage 1: z3-new alone, short budget
	ctx0, cancel0 := context.WithTimeout(context.Background(), time.Duration(timeoutS+2)*time.Second)
	// (a query z3-new does not decide at once is usually decided by another solver at once:
	// a short first stage keeps the cost of z3-new's bad cases low)
	short := 5
	if quickOnly {
		short = 5
	}
	if timeoutS < short {
		short = timeoutS
	}
	r := runOne(ctx0, solvers[0], file, short)
	cancel0()
	if r.result == "sat" || r.result == "unsat" || quickOnly {
		return r
	}
	// stage 2: race all
	ctx, cancel := context.WithTimeout(context.Background(), time.Duration(timeoutS+2)*time.Second)
	defer cancel()
	ch := make(chan solveResult, len(solvers))
	for _, s := range solvers {
		s := s
		go func() { ch <- runOne(ctx, s, file, timeoutS) }()
	}
	best := r
	for range solvers {
		x := <-ch
		if x.result == "sat" || x.result == "unsat" {
			cancel()
			x.secs += r.secs
			return x
		}
		if best.result == "error" || best.result == "" {
			best = x
		}
	}
	if best.result != "error" {
		best.result = "unknown"
	}
	return best
}

// dischargeGroups discharges obls; a failing group is replaced by its members.
func dischargeGroups(obls []*Obligation, dir string, timeoutS, workers int) []*Obligation {
	dischargeAll(obls, dir, timeoutS, workers)
	var out []*Obligation
	var extra []*Obligation
	for _, o := range obls {
		if len(o.Children) > 0 && !o.ok() {
			extra = append(extra, o.Children...)
			continue
		}
		out = append(out, o)
	}
	if len(extra) > 0 {
		dischargeAll(extra, filepath.Join(dir, "members"), timeoutS, workers)
		out = append(out, extra...)
	}
	return out
}

func dischargeAll(obls []*Obligation, dir string, timeoutS, workers int) {
	os.MkdirAll(dir, 0o755)
	var wg sync.WaitGroup
	sem := make(chan struct{}, workers)
	for i, o := range obls {
		wg.Add(1)
		sem <- struct{}{}
		go func(i int, o *Obligation) {
			defer wg.Done()
			defer func() { <-sem }()
			if o.Solver == "structural" {
				return // decided by the generator itself
			}
			r := solve(o.Query, dir, fmt.Sprintf("q%04d", i), timeoutS, !o.WantSat, o.WantSat)
			o.Result, o.Solver, o.TimeS = r.result, r.solver, r.secs
			if r.result == "sat" {
				o.Model = r.out
			} else if r.result != "unsat" {
				o.Model = r.out
			}
		}(i, o)
	}
	wg.Wait()
}

// delambda rewrites `(assert (= X (lambda ((r Int)) BODY)))` into
// `(assert (forall ((r Int)) (= (select X r) BODY)))`, line by line.
func delambda(q string) string {
	lines := strings.Split(q, "\n")
	const mark = " (lambda ((r Int)) "
	for i, l := range lines {
		j := strings.Index(l, mark)
		if !strings.HasPrefix(l, "(assert (= ") || j < 0 || !strings.HasSuffix(l, ")))") {
			continue
		}
		x := l[len("(assert (= "):j]
		body := l[j+len(mark) : len(l)-3]
		lines[i] = fmt.Sprintf("(assert (forall ((r Int)) (= (select %s r) %s)))", x, body)
	}
	return strings.Join(lines, "\n")
}

// crossCheck re-runs every discharged (unsat) obligation on the other solvers
// of the portfolio. It returns how many obligations a second solver confirmed
// and the names of obligations on which some solver answered sat (a
// disagreement between solvers: one of them is wrong, nothing can be trusted).
func crossCheck(obls []*Obligation, dir string, timeoutS, workers int) (confirmed int, disagreements []string) {
	os.MkdirAll(dir, 0o755)
	var mu sync.Mutex
	var wg sync.WaitGroup
	sem := make(chan struct{}, workers)
	for i, o := range obls {
		if o.WantSat || o.Result != "unsat" || o.Solver == "structural" || o.Query == "" {
			continue
		}
		wg.Add(1)
		sem <- struct{}{}
		go func(i int, o *Obligation) {
			defer wg.Done()
			defer func() { <-sem }()
			file := filepath.Join(dir, fmt.Sprintf("x%04d.smt2", i))
			q := o.Query + "(check-sat)\n"
			os.WriteFile(file, []byte(q), 0o644)
			if strings.Contains(q, "(lambda ((r Int)) ") {
				os.WriteFile(file+".cvc5", []byte(delambda(q)), 0o644)
			}
			ok := false
			for _, s := range solvers {
				if s.name == o.Solver || s.name == "z3-qi" || (s.name == "z3-new" && o.Solver == "z3-qi") {
					continue // only a different solver implementation counts as confirmation
				}
				ctx, cancel := context.WithTimeout(context.Background(), time.Duration(timeoutS+2)*time.Second)
				r := runOne(ctx, s, file, timeoutS)
				cancel()
				if r.result == "unsat" {
					ok = true
				}
				if r.result == "sat" {
					mu.Lock()
					disagreements = append(disagreements, o.Name+" ("+o.Solver+": unsat, "+s.name+": sat)")
					mu.Unlock()
				}
			}
			if ok {
				mu.Lock()
				confirmed++
				mu.Unlock()
			}
			os.Remove(file)
			os.Remove(file + ".cvc5")
		}(i, o)
	}
	wg.Wait()
	sort.Strings(disagreements)
	return
}
