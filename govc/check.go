package main

// Property-level driver: select the functions under contract for a property,
// discharge their obligations, classify failures, write evidence.

import (
	"encoding/json"
	"fmt"
	"os"
	"path/filepath"
	"sort"
	"strconv"
	"strings"
	"sync"
	"time"

	"golang.org/x/tools/go/ssa"
)

var verifDir = "/verif"
var outDir = "/verif" // evidence and replay files

type knownFinding struct {
	Prop       string
	Obligation string
	Text       string
}

func loadKnownFindings() []knownFinding {
	var out []knownFinding
	data, err := os.ReadFile(filepath.Join(verifDir, "known_findings.txt"))
	if err != nil {
		return nil
	}
	for _, line := range strings.Split(string(data), "\n") {
		line = strings.TrimSpace(line)
		if !strings.HasPrefix(line, "finding:") {
			continue
		}
		kf := knownFinding{}
		rest := strings.TrimSpace(strings.TrimPrefix(line, "finding:"))
		for _, f := range strings.Fields(rest) {
			if strings.HasPrefix(f, "property=") {
				kf.Prop = strings.TrimPrefix(f, "property=")
			} else if strings.HasPrefix(f, "obligation=") {
				kf.Obligation = strings.TrimPrefix(f, "obligation=")
			}
		}
		if i := strings.Index(rest, " -- "); i >= 0 {
			kf.Text = strings.TrimSpace(rest[i+4:])
		}
		out = append(out, kf)
	}
	return out
}

type baseline struct {
	Props map[string][]string `json:"props"`
}

func loadBaseline() *baseline {
	b := &baseline{Props: map[string][]string{}}
	data, err := os.ReadFile(filepath.Join(verifDir, "baseline", "obligations.json"))
	if err == nil {
		json.Unmarshal(data, b)
	}
	return b
}

func hasProp(ps []string, p string) bool {
	for _, x := range ps {
		if x == p {
			return true
		}
	}
	return false
}

// exprReach: contract keys of the functions of package parse reachable from
// parse.Expr through static calls, closures and function values they mention
// (scanner state functions are handed around as values).
func (p *Prog) exprReach() map[string]bool {
	p.exprReachOnce.Do(func() {
		p.exprReachKeys = map[string]bool{}
		p.exprReachDisp = map[string]bool{}
		root := p.funcs[repoModule+"/parse::Expr"]
		if root == nil {
			return
		}
		seen := map[*ssa.Function]bool{}
		var visit func(g *ssa.Function)
		visit = func(g *ssa.Function) {
			if g == nil || seen[g] {
				return
			}
			seen[g] = true
			if !p.inRepo(g) || g.Blocks == nil {
				return
			}
			p.exprReachKeys[p.contractKey(g)] = true
			p.exprReachDisp[p.fnDisplay(g)] = true
			for _, b := range g.Blocks {
				for _, ins := range b.Instrs {
					var ops [16]*ssa.Value
					for _, op := range ins.Operands(ops[:0]) {
						if op == nil || *op == nil {
							continue
						}
						switch v := (*op).(type) {
						case *ssa.Function:
							visit(v)
						case *ssa.MakeClosure:
							if f2, ok := v.Fn.(*ssa.Function); ok {
								visit(f2)
							}
						}
					}
				}
			}
			for _, an := range g.AnonFuncs {
				visit(an)
			}
		}
		visit(root)
	})
	return p.exprReachKeys
}

func (p *Prog) exprReachFn(disp string) bool {
	p.exprReach()
	return p.exprReachDisp[disp]
}

// contractsFor returns the repo contracts relevant to a property, sorted.
func (p *Prog) contractsFor(prop string) []string {
	var keys []string
	for k, c := range p.specs.Contracts {
		if c.Extern || c.Trusted || strings.HasPrefix(k, "iface:") || strings.HasPrefix(k, "functype:") {
			continue
		}
		// C06 also owns the typed-nil obligations of every function of the render package
		renderPkg := prop == "C06" && c.PkgPath == repoModule+"/soyhtml"
		// C06 ("parsing a globals file returns normally") also owns the no-panic / termination
		// obligations (labelled C05) of the scanner and expression-parser functions that
		// parse.Expr can reach: tree.recover re-raises runtime panics on purpose
		if prop == "C06" && hasProp(c.Props, "C05") && p.exprReach()[k] {
			renderPkg = true
		}
		if prop == "" || renderPkg || hasProp(c.Props, prop) || c.clauseHasProp(prop) || (c.Key == "init" && p.specs.tableHasProp(c.PkgPath, prop)) {
			keys = append(keys, k)
		}
	}
	sort.Strings(keys)
	return keys
}

func (c *Contract) clauseHasProp(prop string) bool {
	chk := func(cs []Clause) bool {
		for _, x := range cs {
			if hasProp(x.Props, prop) && !x.Trusted {
				return true
			}
		}
		return false
	}
	if chk(c.Requires) || chk(c.Ensures) || chk(c.Panics) {
		return true
	}
	for _, l := range c.Loops {
		if chk(l.Invariants) || chk(l.Decreases) {
			return true
		}
	}
	for _, hs := range c.AtCalls {
		for _, h := range hs {
			if hasProp(h.C.Props, prop) {
				return true
			}
		}
	}
	return false
}

type checkOutcome struct {
	Results    []*FnResult
	Obls       []*Obligation
	Missing    []string
	Violations []string
	Known      []string
	Undecided  []string
}

func runCheck(p *Prog, prop, tier string, timeout, workers int, verbose bool) int {
	t0 := processStart
	if prop == "" {
		fmt.Fprintln(os.Stderr, "check: -prop required")
		return 2
	}
	if tier == "thorough" && timeout < 60 {
		timeout = 60
	}
	seed, _ := strconv.Atoi(os.Getenv("VERIF_SEED"))
	keys := p.contractsFor(prop)
	out := &checkOutcome{}
	var mu sync.Mutex
	var wg sync.WaitGroup
	sem := make(chan struct{}, 8)
	results := make([]*FnResult, len(keys))
	for i, k := range keys {
		fn := p.funcs[k]
		if fn == nil {
			mu.Lock()
			out.Missing = append(out.Missing, k)
			mu.Unlock()
			continue
		}
		wg.Add(1)
		sem <- struct{}{}
		go func(i int, k string, fn *ssa.Function) {
			defer wg.Done()
			defer func() { <-sem }()
			results[i] = p.verifyFunction(fn, p.specs.Contracts[k])
		}(i, k, fn)
	}
	wg.Wait()
	for _, r := range results {
		if r == nil {
			continue
		}
		out.Results = append(out.Results, r)
		for _, o := range r.Obls {
			if o.Kind == "reach" || hasProp(o.Props, prop) || (prop == "C06" && hasProp(o.Props, "C05") && p.exprReachFn(r.Fn)) {
				out.Obls = append(out.Obls, o)
			}
		}
	}
	tmp, _ := os.MkdirTemp("", "govc-"+prop)
	defer os.RemoveAll(tmp)
	out.Obls = dischargeGroups(out.Obls, tmp, timeout, workers)
	// thorough tier: every proof is re-checked by the other solvers of the portfolio
	crossConfirmed, crossTotal := 0, 0
	var crossDisagree []string
	if tier == "thorough" {
		for _, o := range out.Obls {
			if !o.WantSat && o.Result == "unsat" && o.Solver != "structural" {
				crossTotal++
			}
		}
		crossConfirmed, crossDisagree = crossCheck(out.Obls, filepath.Join(tmp, "cross"), 5, workers)
	}
	// package-wide structural obligations (decided by the generator itself)
	addStruct := func(kind string, fs []structFinding) {
		if len(fs) == 0 {
			// nothing flagged: record that the scan ran
			fs = []structFinding{{name: "packages#" + kind + ":clean", ok: true, src: "structural scan of the packages on this property's path found no site to report (no store to, or address-taking call on, a package-level variable outside initialisers)"}}
		}
		for _, sf := range fs {
			o := &Obligation{Name: sf.name, Kind: kind, Fn: strings.SplitN(sf.name, "#", 2)[0], Pos: sf.pos, Props: []string{prop}, Solver: "structural", Result: "sat", Src: sf.src}
			if sf.ok {
				o.Result = "unsat"
			}
			out.Obls = append(out.Obls, o)
		}
	}
	renderPkgs := []string{"/soyhtml", "/soymsg", "/data", "/template", "/ast", "/errortypes"}
	switch prop {
	case "C06", "C12":
		addStruct("recover.covered", p.recoverSiteScan([]string{"/soyhtml"}))
	case "C08", "C09":
		addStruct("global.state", p.globalStateScan(renderPkgs))
		if prop == "C09" {
			// compilation and generation are part of C09 too: goroutines started there must be accounted for
			addStruct("goroutine.covered", p.goStmtScan([]string{"/soyjs", "/soymsg", "/parsepasses", "/parse", "/template", "/ast", "/data", "/errortypes", "/soyhtml", ""}))
		}
	case "C13":
		addStruct("global.state", p.globalStateScan([]string{"/soyjs", "/soymsg", "/parsepasses", "/parse", "/template", "/ast", ""}))
		addStruct("goroutine.covered", p.goStmtScan([]string{"/soyjs", "/soymsg", "/parsepasses", "/parse", "/template", "/ast", "/data", "/errortypes", ""}))
	case "C05":
		// recursion on the input is bounded in depth (a stack overflow cannot be recovered from)
		addStruct("stack.covered", p.stackCoverScan([]string{"/parse"}))
	case "C18":
		// the one trusted function the drain argument rests on has the shape it is trusted for
		addStruct("trusted.shape", p.trustedShapeScan())
	case "C10":
		// ids and names must not depend on other messages or earlier compilations
		addStruct("global.state", p.globalStateScan([]string{"/soymsg", "/parsepasses", "/ast"}))
	}
	var extraNotes []string
	if prop == "C13" {
		cov, notes := p.mapRangeCoverage(prop, out.Obls)
		out.Obls = append(out.Obls, cov...)
		extraNotes = notes
	}

	known := loadKnownFindings()
	base := loadBaseline()
	baseSet := map[string]bool{}
	for _, n := range base.Props[prop] {
		baseSet[n] = true
	}
	os.MkdirAll(filepath.Join(outDir, "replay"), 0o755)
	seenNames := map[string]bool{}
	discharged, total, reachOK := 0, 0, 0
	bySolver := map[string]int{}
	solverTime := 0.0
	var samples []map[string]any
	exit := 0
	for _, o := range out.Obls {
		seenNames[o.Name] = true
		solverTime += o.TimeS
		isKnown := false
		for _, kf := range known {
			if kf.Prop == prop && kf.Obligation == o.Name {
				isKnown = true
				if !o.ok() {
					line := fmt.Sprintf("KNOWN-FINDING: property=%s %s -- %s", prop, o.Name, kf.Text)
					fmt.Println(line)
					out.Known = append(out.Known, o.Name)
				} else {
					// listed finding no longer fails: nothing to report, obligation counts as discharged
					isKnown = false
				}
			}
		}
		if isKnown {
			continue
		}
		if o.WantSat && o.ok() {
			reachOK++
			continue
		}
		total++
		if o.ok() {
			discharged++
			bySolver[o.Solver]++
			if len(samples) < 12 {
				samples = append(samples, map[string]any{"obligation": o.Name, "kind": o.Kind, "clause": o.Src, "result": o.Result, "solver": o.Solver, "time_s": round3(o.TimeS)})
			}
			continue
		}
		// failing obligation
		if o.WantSat {
			// vacuity guard: precondition / invariant unsatisfiable
			rp := writeReplay(prop, o, "vacuous: the assumptions at this point are unsatisfiable (contract or code makes the obligation set empty)")
			fmt.Printf("VIOLATION property=%s replay=%s no-failing-input-found\n", prop, rp)
			out.Violations = append(out.Violations, o.Name)
			exit = 1
			continue
		}
		if o.Solver == "structural" {
			why := o.Src
			if o.Kind == "order.covered" {
				why = "a `for ... range` loop over a map has no discharged order-independence obligation: its function carries no C13 contract, the obligation is undecided, or the loop is not declared order-free"
			}
			rp := writeReplay(prop, o, why)
			fmt.Printf("VIOLATION property=%s replay=%s no-failing-input-found\n", prop, rp)
			out.Violations = append(out.Violations, o.Name)
			exit = 1
			continue
		}
		if o.Result == "sat" {
			rp, reproduced := replayObligation(p, prop, o)
			if reproduced {
				fmt.Printf("VIOLATION property=%s replay=%s\n", prop, rp)
			} else {
				fmt.Printf("VIOLATION property=%s replay=%s no-failing-input-found\n", prop, rp)
			}
			out.Violations = append(out.Violations, o.Name)
			exit = 1
			continue
		}
		// unknown / timeout / error
		if baseSet[o.Name] || len(base.Props[prop]) == 0 {
			rp := writeReplay(prop, o, "solver returned "+o.Result+" for an obligation that discharges on the unchanged tree")
			fmt.Printf("VIOLATION property=%s replay=%s no-failing-input-found\n", prop, rp)
			out.Violations = append(out.Violations, o.Name)
			exit = 1
		} else {
			// a new obligation (not in the committed baseline) that no solver decided:
			// undecided, not counted among the obligations of this proof
			out.Undecided = append(out.Undecided, o.Name+" ("+o.Result+")")
			total--
		}
	}
	// obligations that existed at baseline but vanished (function removed/renamed, contract key dangling)
	for _, msg := range append(append([]string{}, p.specErrors[prop]...), p.specErrors["*"]...) {
		o := &Obligation{Name: "contract-name:" + msg, Kind: "vacuity", Src: msg}
		rp := writeReplay(prop, o, "a name used by the contract files matches nothing in the program; the clauses attached to it never apply")
		fmt.Printf("VIOLATION property=%s replay=%s no-failing-input-found\n", prop, rp)
		out.Violations = append(out.Violations, o.Name)
		exit = 1
	}
	for _, d := range crossDisagree {
		o := &Obligation{Name: "solver-disagreement:" + d, Kind: "vacuity", Src: d}
		rp := writeReplay(prop, o, "two solvers of the portfolio give opposite answers on the same query")
		fmt.Printf("VIOLATION property=%s replay=%s no-failing-input-found\n", prop, rp)
		out.Violations = append(out.Violations, o.Name)
		exit = 1
	}
	for _, k := range out.Missing {
		o := &Obligation{Name: k + "#contract-key", Kind: "vacuity", Src: "function under contract not found in the program"}
		rp := writeReplay(prop, o, "the contract file names a function that no longer exists; its obligations cannot be generated")
		fmt.Printf("VIOLATION property=%s replay=%s no-failing-input-found\n", prop, rp)
		out.Violations = append(out.Violations, o.Name)
		exit = 1
	}
	var vanished []string
	for n := range baseSet {
		if !seenNames[n] {
			vanished = append(vanished, n)
		}
	}
	sort.Strings(vanished)
	for _, r := range out.Results {
		if len(r.Unsupported) > 0 {
			out.Undecided = append(out.Undecided, fmt.Sprintf("%s: %s", r.Fn, strings.Join(r.Unsupported, "; ")))
		}
	}
	if len(vanished) > 0 && os.Getenv("GOVC_WRITE_BASELINE") != "1" {
		// A baseline obligation that is no longer generated means the VC changed shape
		// (renamed clause, removed call site ...). Report it: silence would be vacuity.
		o := &Obligation{Name: vanished[0], Kind: "vacuity", Src: fmt.Sprintf("%d baseline obligations are no longer generated: %s", len(vanished), strings.Join(firstN(vanished, 8), ", "))}
		rp := writeReplay(prop, o, "obligations discharged on the unchanged tree are no longer generated from the current source; the property is not re-established for them")
		fmt.Printf("VIOLATION property=%s replay=%s no-failing-input-found\n", prop, rp)
		out.Violations = append(out.Violations, o.Name)
		exit = 1
	}
	if total == 0 {
		fmt.Printf("VIOLATION property=%s replay=%s no-failing-input-found\n", prop, writeReplay(prop, &Obligation{Name: "no-obligations"}, "zero obligations generated (vacuous check)"))
		exit = 1
	}

	if os.Getenv("GOVC_WRITE_BASELINE") == "1" && exit == 0 {
		var names []string
		for _, o := range out.Obls {
			if o.ok() {
				names = append(names, o.Name)
			}
		}
		sort.Strings(names)
		base.Props[prop] = names
		os.MkdirAll(filepath.Join(verifDir, "baseline"), 0o755)
		bd, _ := json.MarshalIndent(base, "", " ")
		os.WriteFile(filepath.Join(verifDir, "baseline", "obligations.json"), append(bd, '\n'), 0o644)
	}
	// evidence
	var fns []string
	assume := map[string]bool{}
	for _, r := range out.Results {
		fns = append(fns, r.Fn)
		for _, n := range r.Notes {
			assume[n] = true
		}
	}
	for _, n := range extraNotes {
		assume[n] = true
	}
	assume["go/ssa (x/tools v0.29.0) faithfully represents the compiled code; govc's encoding of SSA instructions; the SMT solvers"] = true
	assume["machine integers are treated as mathematical integers (no overflow modelling)"] = true
	if prop == "C05" {
		assume["stack depth: the recursion of package parse is bounded by the stackbound tuples (stack / stack.covered obligations) over the static call graph; calls through function values and interfaces are not followed, frame sizes are not modelled, and the recursion of later passes over the tree is bounded only by the tree height the parser enforces (argument on paper)"] = true
	}
	for _, o := range out.Obls {
		if o.Kind == "stack.covered" && strings.HasPrefix(o.Src, "ASSUMED") {
			assume[o.Name+": "+o.Src] = true
		}
	}
	var al []string
	for a := range assume {
		al = append(al, a)
	}
	sort.Strings(al)
	level := "proof"
	ev := map[string]any{
		"property_id": prop,
		"tier":        tier,
		"seed":        seed,
		"level":       level,
		"wall_s":      round3(time.Since(t0).Seconds()),
		"violations":  len(out.Violations),
		"assumptions": al,
		"coverage": map[string]any{
			"obligations":              total,
			"discharged":               discharged,
			"checker_cmd":              fmt.Sprintf("/verif/bin/govc check -prop %s -tier %s (z3-new 5.1.0 | z3 4.8.12 | cvc5 1.0.3 portfolio, %ds/query)", prop, tier, timeout),
			"trusted_base":             trustedBase(p, out),
			"functions_under_contract": fns,
			"discharged_by_backend":    bySolver,
			"cross_checked":            map[string]any{"unsat_obligations": crossTotal, "confirmed_by_a_second_solver": crossConfirmed, "disagreements": len(crossDisagree), "note": "thorough tier only: each discharged obligation is re-run on the other solvers (5 s each); a second solver may time out, it must never answer sat"},
			"solver_time_s":            round3(solverTime),
			"vacuity_guards_passed":    reachOK,
			"known_findings":           out.Known,
			"undecided":                out.Undecided,
			"violating_obligations":    out.Violations,
			"samples":                  samples,
			"explanation":              "every obligation is generated from the SSA of /repo's current working tree on this run and discharged (unsat) by an SMT back end; counts exclude obligations listed as known findings",
		},
	}
	os.MkdirAll(filepath.Join(outDir, "evidence"), 0o755)
	data, _ := json.MarshalIndent(ev, "", " ")
	os.WriteFile(filepath.Join(outDir, "evidence", prop+".json"), append(data, '\n'), 0o644)
	if os.Getenv("GOVC_SLOW") != "" {
		for _, o := range out.Obls {
			if o.TimeS > 1.5 {
				fmt.Fprintf(os.Stderr, "slow %.2fs %s %s %s\n", o.TimeS, o.Solver, o.Result, o.Name)
			}
		}
	}
	if verbose {
		for _, r := range out.Results {
			printResult(r, false)
		}
		fmt.Fprintf(os.Stderr, "%s: %d/%d discharged, %d known, %d violations, %d undecided, %.1fs\n", prop, discharged, total, len(out.Known), len(out.Violations), len(out.Undecided), time.Since(t0).Seconds())
		for _, u := range out.Undecided {
			fmt.Fprintln(os.Stderr, "  undecided:", u)
		}
	}
	return exit
}

func firstN(s []string, n int) []string {
	if len(s) > n {
		return s[:n]
	}
	return s
}

func round3(f float64) float64 { return float64(int(f*1000+0.5)) / 1000 }

func trustedBase(p *Prog, out *checkOutcome) []string {
	tb := map[string]bool{}
	for _, r := range out.Results {
		for _, n := range r.Notes {
			if strings.HasPrefix(n, "assumed contract: ") || strings.HasPrefix(n, "extern ") || strings.HasPrefix(n, "interface call ") {
				tb[n] = true
			}
		}
	}
	var l []string
	for k := range tb {
		l = append(l, k)
	}
	sort.Strings(l)
	return append([]string{"golang.org/x/tools/go/ssa", "govc SSA->SMT encoding", "z3 / cvc5"}, l...)
}

func safeName(s string) string {
	var b strings.Builder
	for _, c := range s {
		if c >= 'a' && c <= 'z' || c >= 'A' && c <= 'Z' || c >= '0' && c <= '9' || c == '.' || c == '-' || c == '_' || c == '#' {
			b.WriteRune(c)
		} else {
			b.WriteByte('_')
		}
	}
	r := b.String()
	if len(r) > 150 {
		r = r[:150]
	}
	return r
}

func writeReplay(prop string, o *Obligation, why string) string {
	path := filepath.Join(outDir, "replay", prop+"-"+safeName(o.Name)+".txt")
	var b strings.Builder
	fmt.Fprintf(&b, "property: %s\nfailed obligation: %s\nkind: %s\nclause: %s\nposition: %s\nsolver: %s result: %s (%.2fs)\nreason: %s\n\n", prop, o.Name, o.Kind, o.Src, o.Pos, o.Solver, o.Result, o.TimeS, why)
	if o.Model != "" {
		b.WriteString("solver output (model of the function's inputs and intermediate values):\n")
		b.WriteString(trimModelInputs(o.Model))
	}
	os.WriteFile(path, []byte(b.String()), 0o644)
	return path
}

func trimModelInputs(m string) string {
	if len(m) > 20000 {
		return m[:20000] + "\n...[truncated]\n"
	}
	return m
}

func (sp *Specs) tableHasProp(pkg, prop string) bool {
	for _, a := range append(append([]Axiom{}, sp.GlobalInv...), sp.InitTable...) {
		if a.PkgPath == pkg && hasProp(a.C.Props, prop) {
			return true
		}
	}
	return false
}

var processStart = time.Now()
