package main

func runCheck(p *Prog, prop, tier string, timeout, workers int, verbose bool) int { return 0 }
