package main

// The verification-condition generator: symbolic encoding of go/ssa function
// bodies into SMT-LIB with one query per obligation.

import (
	"regexp"
	"os"
	"fmt"
	"go/constant"
	"go/token"
	"go/types"
	"math/big"
	"sort"
	"strings"

	"golang.org/x/tools/go/ssa"
)

type Val struct {
	T     string
	Tuple []Val
	Loc   *Loc
}

type LocKind int

const (
	locCell   LocKind = iota // *T held by reference (Ptr)
	locField                 // field Field of Parent
	locElem                  // element Index of backing array Base (heap var by elem sort)
	locGlobal                // package-level variable
	locArrIdx                // index into an array value stored at Parent
	locGhost                 // ghost variable
	locGField                // ghost field of a heap object (Ptr, Var)
	locElemAll               // the whole backing array Base (heap var by elem sort)
	locMapAll                // the whole contents of map Ptr (T = the map type)
)

type Loc struct {
	Kind   LocKind
	T      types.Type // type of the value stored at this location
	Ptr    string     // locCell: reference term
	Parent *Loc       // locField / locArrIdx
	Field  int
	Base   string // locElem: backing array reference
	Index  string // locElem / locArrIdx
	Var    string // locGlobal / locGhost heap var name
}

type Heap struct {
	m map[string]string
}

func (h *Heap) clone() *Heap {
	n := &Heap{m: make(map[string]string, len(h.m))}
	for k, v := range h.m {
		n.m[k] = v
	}
	return n
}

type Obligation struct {
	Name     string
	Kind     string
	Fn       string
	Props    []string
	Query    string // full SMT-LIB text
	WantSat  bool   // reach (vacuity) checks must be sat
	Pos      string
	Src      string // contract clause / checked expression
	Result   string // unsat | sat | unknown | timeout
	Solver   string
	TimeS    float64
	Model    string
	Inputs   map[string]string // model values of the function's inputs
	Optional bool              // inferred/auxiliary: failure is "undecided", not a violation
	HeapSorts map[string]string // heap variable -> sort (to declare entry values the query never mentions)
	Children []*Obligation     // grouped obligations: discharged individually only when the group fails
	Tags     map[string]int    // interface tag of each dynamic type (type key -> tag), for rebuilding values from a model
	Bounds   string            // soft bounds on the inputs, tried first when extracting a replayable model
}

type Enc struct {
	P     *Prog
	S     *Sorts
	fn    *ssa.Function
	con   *Contract
	lines  []bodyLine // the encoding so far: declarations and assertions, each tagged with the block that emitted it
	refFacts map[string]int
	globalFacts map[string]bool
	hooksFired map[string]bool // `at call` keys of the contract that matched some call site
	curBlk int        // index of the top-level block being encoded (-1: before the body)
	anc    map[int]map[int]bool
	n     int
	obls  []*Obligation
	names map[string]int
	notes map[string]bool // assumptions relied upon
	dry   bool
	allHeapVars []string // known after pass 1, used by havoc-all
	unsupported []string
	inputs      []string // SMT consts that are function inputs (for model extraction)
	ifaces      map[string]*types.Interface
	inlineStack []*ssa.Function
	bounds      strings.Builder
	mapPoints   map[string][]ssa.Value
	mute        int  // >0: obligations are not emitted (auxiliary encodings)
	orderMode   bool // unpinned call results are functions of their arguments
	pointLoop   *LoopInfo
	pointFrame  *Frame
	mergeOf     map[string]mergeInfo // merged heap constant -> the alternatives it was built from
}

type mergeInfo struct {
	conds []string
	terms []string
}

type LoopInfo struct {
	header   *ssa.BasicBlock
	blocks   map[int]bool
	ordinal  int
	spec     *LoopSpec
	phiConst map[*ssa.Phi]string
	variant  []string // variant values at header state
	hdrHeap  *Heap
	varExprs []Clause
	inferred bool
	framed   map[string]bool
	mapPoints map[string][]ssa.Value
}

type retSite struct {
	reach string
	vals  []Val
	heap  *Heap
}

type allocRec struct {
	blk  *ssa.BasicBlock
	term string
}

type Frame struct {
	e        *Enc
	fn       *ssa.Function
	prefix   string
	depth    int
	top      bool
	vals     map[ssa.Value]Val
	reach    map[int]string
	endHeap  map[int]*Heap
	edgeCond map[[2]int]string
	loops    map[int]*LoopInfo // by header index
	entry    *Heap
	rets     []retSite
	callOrd  map[string]int
	curBlock *ssa.BasicBlock
	// references allocated so far in this frame (block, term): later allocations in
	// dominated blocks are stated to be larger (a consequence of the $alloc
	// watermark that the solvers do not always find by themselves)
	allocRecs []allocRec
	curReach string
	heap     *Heap // current
	con      *Contract
	args     []Val
	panicked bool
	curArgTypes []types.Type
	curCallArgs []ssa.Value
	curResTypes *types.Tuple
	selfTerm string
	parent   *Frame
	recovered bool
	inPanicSim bool
	orderExec bool
	recoveredVal string
	private  []*Loc // non-escaping local cells: untouched by callees
	privateAllocs []*ssa.Alloc
	siteKeys map[ssa.Instruction]string
	defers   []*ssa.Defer
}

func (e *Enc) fresh(prefix string) string {
	e.n++
	return q(fmt.Sprintf("%s!%d", prefix, e.n))
}

type bodyLine struct {
	text   string
	blk    int
	assert bool
}

func (e *Enc) decl(name, sort string) {
	e.lines = append(e.lines, bodyLine{text: fmt.Sprintf("(declare-const %s %s)\n", name, sort), blk: e.curBlk})
}

func (e *Enc) assert(t string) {
	e.lines = append(e.lines, bodyLine{text: fmt.Sprintf("(assert %s)\n", t), blk: e.curBlk, assert: true})
}

// ancestors of block b in the control-flow graph without back edges (b included).
func (e *Enc) ancestors(b int) map[int]bool {
	if e.anc == nil {
		e.anc = map[int]map[int]bool{}
	}
	if a, ok := e.anc[b]; ok {
		return a
	}
	a := map[int]bool{}
	if e.fn != nil && b >= 0 && b < len(e.fn.Blocks) {
		var walk func(x *ssa.BasicBlock)
		walk = func(x *ssa.BasicBlock) {
			if a[x.Index] {
				return
			}
			a[x.Index] = true
			for _, p := range x.Preds {
				if !isBackEdge(p, x) {
					walk(p)
				}
			}
		}
		walk(e.fn.Blocks[b])
	}
	e.anc[b] = a
	return a
}

// bodyText: the encoding as seen from the block being encoded. Every
// declaration is kept; an assertion is kept only if the block that emitted it
// lies on some path to the current block. Facts established on other branches
// cannot hold on a path through this block, and dropping assumptions is sound;
// it keeps quantified facts of unrelated branches out of each query.
func (e *Enc) bodyText() string {
	var sb strings.Builder
	var anc map[int]bool
	if e.curBlk >= 0 && os.Getenv("GOVC_NOSLICE") == "" {
		anc = e.ancestors(e.curBlk)
	}
	for _, l := range e.lines {
		if l.assert && anc != nil && l.blk >= 0 && !anc[l.blk] {
			continue
		}
		sb.WriteString(l.text)
	}
	return sb.String()
}

func (e *Enc) define(prefix, sort, term string) string {
	n := e.fresh(prefix)
	e.decl(n, sort)
	e.assert(fmt.Sprintf("(= %s %s)", n, term))
	return n
}

func (e *Enc) note(s string) { e.notes[s] = true }

func (e *Enc) unsupp(s string) {
	for _, u := range e.unsupported {
		if u == s {
			return
		}
	}
	e.unsupported = append(e.unsupported, s)
}

// heap access ----------------------------------------------------------------

func (e *Enc) hget(h *Heap, v string) string {
	if t, ok := h.m[v]; ok {
		return t
	}
	sortS, ok := e.S.heapSort[v]
	if !ok {
		panic("unknown heap var " + v)
	}
	name := q("H0!" + v)
	e.S.declare("H0!"+v, fmt.Sprintf("(declare-const %s %s)", name, sortS))
	return name
}

func (e *Enc) hset(h *Heap, v, term string) {
	h.m[v] = e.define("H", e.S.heapSort[v], term)
}

func (e *Enc) hhavoc(h *Heap, v string) {
	n := e.fresh("Hv")
	e.decl(n, e.S.heapSort[v])
	h.m[v] = n
}

func (e *Enc) mergeHeaps(conds []string, hs []*Heap) *Heap {
	if len(hs) == 1 {
		return hs[0].clone()
	}
	keys := map[string]bool{}
	for _, h := range hs {
		for k := range h.m {
			keys[k] = true
		}
	}
	var ks []string
	for k := range keys {
		ks = append(ks, k)
	}
	sort.Strings(ks)
	out := &Heap{m: map[string]string{}}
	for _, k := range ks {
		first := e.hget(hs[0], k)
		same := true
		for _, h := range hs[1:] {
			if e.hget(h, k) != first {
				same = false
			}
		}
		if same {
			out.m[k] = first
			continue
		}
		term := e.hget(hs[len(hs)-1], k)
		var alts []string
		for _, h := range hs {
			alts = append(alts, e.hget(h, k))
		}
		for i := len(hs) - 2; i >= 0; i-- {
			term = fmt.Sprintf("(ite %s %s %s)", conds[i], e.hget(hs[i], k), term)
		}
		out.m[k] = e.define("Hm", e.S.heapSort[k], term)
		if e.mergeOf == nil {
			e.mergeOf = map[string]mergeInfo{}
		}
		e.mergeOf[out.m[k]] = mergeInfo{conds: append([]string{}, conds...), terms: alts}
	}
	return out
}

// locations --------------------------------------------------------------------

func (e *Enc) load(h *Heap, l *Loc) string {
	switch l.Kind {
	case locCell:
		if _, st := structKey(l.T); st != nil {
			if st.NumFields() == 0 {
				return e.S.zero(l.T)
			}
			var parts []string
			for i := 0; i < st.NumFields(); i++ {
				parts = append(parts, fmt.Sprintf("(select %s %s)", e.hget(h, e.S.fieldVar(l.T, i)), l.Ptr))
			}
			return "(" + e.S.structCtor(l.T) + " " + strings.Join(parts, " ") + ")"
		}
		if at, ok := l.T.Underlying().(*types.Array); ok {
			return fmt.Sprintf("(select %s %s)", e.hget(h, e.S.elemVar(at.Elem())), l.Ptr)
		}
		return fmt.Sprintf("(select %s %s)", e.hget(h, e.S.cellVar(l.T)), l.Ptr)
	case locField:
		p := l.Parent
		if p.Kind == locCell {
			return fmt.Sprintf("(select %s %s)", e.hget(h, e.S.fieldVar(p.T, l.Field)), p.Ptr)
		}
		return fmt.Sprintf("(%s %s)", e.S.fieldAccessor(p.T, l.Field), e.load(h, p))
	case locElem:
		return fmt.Sprintf("(select (select %s %s) %s)", e.hget(h, e.S.elemVar(l.T)), l.Base, l.Index)
	case locElemAll:
		return fmt.Sprintf("(select %s %s)", e.hget(h, e.S.elemVar(l.T)), l.Base)
	case locGlobal, locGhost:
		return e.hget(h, l.Var)
	case locGField:
		return fmt.Sprintf("(select %s %s)", e.hget(h, l.Var), l.Ptr)
	case locArrIdx:
		return fmt.Sprintf("(select %s %s)", e.load(h, l.Parent), l.Index)
	}
	panic("load")
}

func (e *Enc) store(h *Heap, l *Loc, v string) {
	switch l.Kind {
	case locCell:
		if _, st := structKey(l.T); st != nil {
			for i := 0; i < st.NumFields(); i++ {
				fv := e.S.fieldVar(l.T, i)
				e.hset(h, fv, fmt.Sprintf("(store %s %s (%s %s))", e.hget(h, fv), l.Ptr, e.S.fieldAccessor(l.T, i), v))
			}
			return
		}
		if at, ok := l.T.Underlying().(*types.Array); ok {
			ev := e.S.elemVar(at.Elem())
			e.hset(h, ev, fmt.Sprintf("(store %s %s %s)", e.hget(h, ev), l.Ptr, v))
			return
		}
		cv := e.S.cellVar(l.T)
		e.hset(h, cv, fmt.Sprintf("(store %s %s %s)", e.hget(h, cv), l.Ptr, v))
	case locField:
		p := l.Parent
		if p.Kind == locCell {
			fv := e.S.fieldVar(p.T, l.Field)
			e.hset(h, fv, fmt.Sprintf("(store %s %s %s)", e.hget(h, fv), p.Ptr, v))
			return
		}
		// embedded struct: rebuild the parent value
		_, st := structKey(p.T)
		pv := e.load(h, p)
		var parts []string
		for i := 0; i < st.NumFields(); i++ {
			if i == l.Field {
				parts = append(parts, v)
			} else {
				parts = append(parts, fmt.Sprintf("(%s %s)", e.S.fieldAccessor(p.T, i), pv))
			}
		}
		e.store(h, p, "("+e.S.structCtor(p.T)+" "+strings.Join(parts, " ")+")")
	case locElem:
		ev := e.S.elemVar(l.T)
		cur := e.hget(h, ev)
		e.hset(h, ev, fmt.Sprintf("(store %s %s (store (select %s %s) %s %s))", cur, l.Base, cur, l.Base, l.Index, v))
	case locElemAll:
		ev := e.S.elemVar(l.T)
		e.hset(h, ev, fmt.Sprintf("(store %s %s %s)", e.hget(h, ev), l.Base, v))
	case locGlobal, locGhost:
		e.hset(h, l.Var, v)
	case locGField:
		e.hset(h, l.Var, fmt.Sprintf("(store %s %s %s)", e.hget(h, l.Var), l.Ptr, v))
	case locArrIdx:
		e.store(h, l.Parent, fmt.Sprintf("(store %s %s %s)", e.load(h, l.Parent), l.Index, v))
	}
}

// heapVarsOfLoc: which heap variables a store to l touches.
func (e *Enc) heapVarsOfLoc(l *Loc) []string {
	switch l.Kind {
	case locCell:
		if _, st := structKey(l.T); st != nil {
			var vs []string
			for i := 0; i < st.NumFields(); i++ {
				vs = append(vs, e.S.fieldVar(l.T, i))
			}
			return vs
		}
		if at, ok := l.T.Underlying().(*types.Array); ok {
			return []string{e.S.elemVar(at.Elem())}
		}
		return []string{e.S.cellVar(l.T)}
	case locField:
		if l.Parent.Kind == locCell {
			return []string{e.S.fieldVar(l.Parent.T, l.Field)}
		}
		return e.heapVarsOfLoc(l.Parent)
	case locElem, locElemAll:
		return []string{e.S.elemVar(l.T)}
	case locMapAll:
		mt := l.T.Underlying().(*types.Map)
		return []string{e.S.mapVar(mt), e.S.mapDomVar(mt), e.S.mapLenVar()}
	case locGlobal, locGhost, locGField:
		return []string{l.Var}
	case locArrIdx:
		return e.heapVarsOfLoc(l.Parent)
	}
	return nil
}

// well-formedness facts about a value of a Go type (lengths non-negative, byte ranges)
func (e *Enc) wf(term string, t types.Type, depth int) []string {
	var out []string
	switch u := types.Unalias(t).Underlying().(type) {
	case *types.Basic:
		switch u.Kind() {
		case types.Uint8:
			out = append(out, fmt.Sprintf("(and (<= 0 %s) (<= %s 255))", term, term))
		case types.Uint16:
			out = append(out, fmt.Sprintf("(and (<= 0 %s) (<= %s 65535))", term, term))
		case types.Uint, types.Uint32, types.Uint64, types.Uintptr:
			out = append(out, fmt.Sprintf("(<= 0 %s)", term))
		case types.Int32:
			out = append(out, fmt.Sprintf("(and (<= (- 2147483648) %s) (<= %s 2147483647))", term, term))
		case types.Int, types.Int64:
			// (a machine value wherever wf is stated: parameters, loads, results of calls
			// and of type assertions; arithmetic on it stays mathematical). Opt-in per
			// function (`intrange`): the extra facts slow the large renderer functions.
			if e.con == nil || !e.con.IntRange {
				break
			}
			out = append(out, fmt.Sprintf("(and (<= (- 9223372036854775808) %s) (<= %s 9223372036854775807))", term, term))
		case types.String:
			out = append(out, fmt.Sprintf("(and (<= 0 (s_len %s)) (<= 0 (s_off %s)))", term, term))
		}
	case *types.Slice:
		out = append(out, fmt.Sprintf("(and (<= 0 (sl_off %s)) (<= 0 (sl_len %s)) (<= (sl_len %s) (sl_cap %s)) (<= 0 (sl_base %s)))", term, term, term, term, term))
		out = append(out, fmt.Sprintf("(=> (= (sl_base %s) 0) (= (sl_cap %s) 0))", term, term))
	case *types.Pointer, *types.Map, *types.Chan:
		out = append(out, fmt.Sprintf("(<= 0 %s)", term))
	case *types.Struct:
		if depth < 2 {
			for i := 0; i < u.NumFields(); i++ {
				out = append(out, e.wf(fmt.Sprintf("(%s %s)", e.S.fieldAccessor(t, i), term), u.Field(i).Type(), depth+1)...)
			}
		}
	case *types.Interface:
		out = append(out, fmt.Sprintf("(<= 0 (i_tag %s))", term))
		if u.NumMethods() > 0 {
			// a value of an interface type with methods never holds a plain string (which has no methods)
			out = append(out, fmt.Sprintf("(not (= (i_tag %s) %d))", term, e.S.tagOf(types.Typ[types.String])))
		}
	}
	return out
}

func (e *Enc) assumeWF(reach, term string, t types.Type) {
	for _, f := range e.wf(term, t, 0) {
		if reach == "" || reach == "true" {
			e.assert(f)
		} else {
			e.assert(fmt.Sprintf("(=> %s %s)", reach, f))
		}
	}
}

// constants -------------------------------------------------------------------

func intLit(v *big.Int) string {
	if v.Sign() < 0 {
		return "(- " + new(big.Int).Neg(v).String() + ")"
	}
	return v.String()
}

func (e *Enc) strConst(s string) string {
	if n, ok := e.S.strC[s]; ok {
		return n
	}
	name := q(fmt.Sprintf("str!%d", len(e.S.strC)))
	e.S.strC[s] = name
	var b strings.Builder
	fmt.Fprintf(&b, "(declare-const %s Str)\n(assert (and (= (s_len %s) %d) (= (s_off %s) 0)", name, name, len(s), name)
	if len(s) <= 160 {
		for i := 0; i < len(s); i++ {
			fmt.Fprintf(&b, " (= (select (s_arr %s) %d) %d)", name, i, s[i])
		}
	}
	b.WriteString("))")
	e.S.declare("strconst!"+name, b.String())
	return name
}

func (e *Enc) fnId(f *ssa.Function) string {
	key := f.String()
	if f.Parent() != nil {
		key = f.Parent().String() + "$" + f.Name()
	}
	name := q("fn!" + key)
	if _, ok := e.S.fnIds[key]; !ok {
		id := 1000 + len(e.S.fnIds)
		e.S.fnIds[key] = id
		e.S.declare("fn!"+key, fmt.Sprintf("(declare-const %s Int)\n(assert (and (= %s %d) (= (fncode %s) %d)))", name, name, id, name, id))
	}
	return name
}

func (e *Enc) constVal(c *ssa.Const) Val {
	t := c.Type()
	if c.Value == nil {
		return Val{T: e.S.zero(t)}
	}
	switch u := t.Underlying().(type) {
	case *types.Basic:
		switch {
		case u.Info()&types.IsBoolean != 0:
			if constant.BoolVal(c.Value) {
				return Val{T: "true"}
			}
			return Val{T: "false"}
		case u.Info()&types.IsInteger != 0:
			v, _ := new(big.Int).SetString(constant.ToInt(c.Value).ExactString(), 10)
			if v == nil {
				return Val{T: "0"}
			}
			return Val{T: intLit(v)}
		case u.Info()&types.IsFloat != 0:
			return Val{T: floatLit(c.Value)}
		case u.Info()&types.IsString != 0:
			n := e.strConst(constant.StringVal(c.Value))
			for _, t := range e.taints() {
				if t.Consts {
					e.assertGlobal(e.taintApp(t, n))
					e.note("taint " + t.Fn + ": every string constant of the package's code satisfies it (assumed: the constants are the generator's own text)")
				}
			}
			return Val{T: n}
		}
	}
	return Val{T: e.S.zero(t)}
}

func floatLit(v constant.Value) string {
	f := constant.ToFloat(v)
	r, ok := constant.Val(f).(*big.Rat)
	if !ok {
		if bf, ok2 := constant.Val(f).(*big.Float); ok2 {
			r, _ = bf.Rat(nil)
		} else if i, ok3 := constant.Val(constant.ToInt(v)).(*big.Int); ok3 {
			r = new(big.Rat).SetInt(i)
		} else if i64, ok4 := constant.Val(constant.ToInt(v)).(int64); ok4 {
			r = new(big.Rat).SetInt64(i64)
		}
	}
	if r == nil {
		return "(_ +zero 11 53)"
	}
	if r.Sign() == 0 {
		return "(_ +zero 11 53)"
	}
	num, den := r.Num(), r.Denom()
	ns := num.String()
	neg := false
	if num.Sign() < 0 {
		neg = true
		ns = new(big.Int).Neg(num).String()
	}
	t := fmt.Sprintf("(/ %s.0 %s.0)", ns, den.String())
	if neg {
		t = "(- " + t + ")"
	}
	return "((_ to_fp 11 53) RNE " + t + ")"
}

// obligations -----------------------------------------------------------------

var reBoundVar = regexp.MustCompile(`\|\?[A-Za-z_]+[0-9]*\|`)

// alphaNorm renames the bound variables of a formula (|?name123|, numbered
// freshly at every evaluation of a spec expression) in order of appearance.
func alphaNorm(s string) string {
	m := map[string]string{}
	return reBoundVar.ReplaceAllStringFunc(s, func(v string) string {
		if r, ok := m[v]; ok {
			return r
		}
		r := fmt.Sprintf("|?b%d|", len(m))
		m[v] = r
		return r
	})
}

// weakenByAssumed: a quantified goal G that the body already assumes under a
// guard, `(assert (=> X G'))` with G' equal to G up to bound-variable names
// (an invariant assumed at a loop head and to be shown again at a back edge
// that did not touch what it speaks about), is replaced by (or X G): with the
// assumption, X suffices.  Solvers do not recognise the two quantified formulas
// as the same one after skolemisation and can time out on `A and not A`.
func weakenByAssumed(body, cond string) string {
	if !strings.Contains(cond, "(forall ") && !strings.Contains(cond, "(exists ") {
		return cond
	}
	want := alphaNorm(cond)
	var guards []string
	for _, line := range strings.Split(body, "\n") {
		if !strings.HasPrefix(line, "(assert (=> ") || !strings.HasSuffix(line, "))") {
			continue
		}
		rest := line[len("(assert (=> ") : len(line)-2]
		i := strings.IndexByte(rest, ' ')
		if i <= 0 || strings.ContainsAny(rest[:i], "()") {
			continue
		}
		if len(rest)-i-1 != len(cond) && !strings.Contains(rest, "|?") {
			continue
		}
		if alphaNorm(rest[i+1:]) == want {
			guards = append(guards, rest[:i])
		}
	}
	if len(guards) == 0 {
		return cond
	}
	return "(or " + strings.Join(guards, " ") + " " + cond + ")"
}

func (e *Enc) oblName(base string) string {
	e.names[base]++
	if k := e.names[base]; k > 1 {
		return fmt.Sprintf("%s@%d", base, k)
	}
	return base
}

func (e *Enc) addObl(kind, detail, reach, cond string, pos token.Pos, src string, props []string) *Obligation {
	if e.dry || e.mute > 0 {
		return nil
	}
	fnName := e.P.fnDisplay(e.fn)
	base := fmt.Sprintf("%s#%s", fnName, kind)
	if detail != "" {
		base += ":" + detail
	}
	o := &Obligation{Name: e.oblName(base), Kind: kind, Fn: fnName, Src: src, Props: props}
	if pos.IsValid() {
		o.Pos = e.P.fset.Position(pos).String()
	}
	var qb strings.Builder
	qb.WriteString(e.bodyText())
	fmt.Fprintf(&qb, "(assert %s)\n(assert (not %s))\n", reach, weakenByAssumed(qb.String(), cond))
	o.Query = qb.String()
	o.Bounds = e.bounds.String()
	e.obls = append(e.obls, o)
	return o
}

func (e *Enc) addReach(detail, reach string, pos token.Pos) {
	if e.dry || e.mute > 0 {
		return
	}
	fnName := e.P.fnDisplay(e.fn)
	o := &Obligation{Name: e.oblName(fmt.Sprintf("%s#reach:%s", fnName, detail)), Kind: "reach", Fn: fnName, WantSat: true}
	if pos.IsValid() {
		o.Pos = e.P.fset.Position(pos).String()
	}
	o.Query = e.bodyText() + fmt.Sprintf("(assert %s)\n", reach)
	e.obls = append(e.obls, o)
}

// assumeAfter records that cond holds on every path continuing past this point.
func (e *Enc) assumeAt(reach, cond string) {
	if reach == "true" {
		e.assert(cond)
	} else {
		e.assert(fmt.Sprintf("(=> %s %s)", reach, cond))
	}
}

func and(ts ...string) string {
	var xs []string
	for _, t := range ts {
		if t == "true" || t == "" {
			continue
		}
		if t == "false" {
			return "false"
		}
		xs = append(xs, t)
	}
	switch len(xs) {
	case 0:
		return "true"
	case 1:
		return xs[0]
	}
	return "(and " + strings.Join(xs, " ") + ")"
}

func or(ts ...string) string {
	var xs []string
	for _, t := range ts {
		if t == "false" || t == "" {
			continue
		}
		if t == "true" {
			return "true"
		}
		xs = append(xs, t)
	}
	switch len(xs) {
	case 0:
		return "false"
	case 1:
		return xs[0]
	}
	return "(or " + strings.Join(xs, " ") + ")"
}

func not(t string) string {
	if t == "true" {
		return "false"
	}
	if t == "false" {
		return "true"
	}
	return "(not " + t + ")"
}

// freshLike declares an unconstrained constant of heap variable hv's sort.
func (e *Enc) freshLike(hv string) string {
	n := e.fresh("Hx")
	e.decl(n, e.S.heapSort[hv])
	return n
}

// addGroup adds one obligation for the conjunction of several conditions at
// the same program point; the members are discharged one by one only if the
// conjunction does not discharge (to name the failing member).
func (e *Enc) addGroup(kind, detail, reach string, names, conds []string, pos token.Pos, src string, props []string) {
	if e.dry || e.mute > 0 || len(conds) == 0 {
		return
	}
	if len(conds) == 1 {
		e.addObl(kind, names[0], reach, conds[0], pos, src, props)
		return
	}
	parent := e.addObl(kind, detail, reach, and(conds...), pos, src, props)
	prefix := e.bodyText()
	fnName := e.P.fnDisplay(e.fn)
	for i, c := range conds {
		ch := &Obligation{Name: fmt.Sprintf("%s#%s:%s", fnName, kind, names[i]), Kind: kind, Fn: fnName, Src: src, Props: props, Pos: parent.Pos}
		ch.Name = e.oblName(ch.Name)
		ch.Query = prefix + fmt.Sprintf("(assert %s)\n(assert (not %s))\n", reach, weakenByAssumed(prefix, c))
		ch.Bounds = parent.Bounds
		parent.Children = append(parent.Children, ch)
	}
}

// fop maps a float operation to its SMT term: the FloatingPoint theory, or -
// under `abstractfloats` - an uninterpreted function shared by code and spec.
func (e *Enc) fop(op string, args ...string) string {
	abs := e.con != nil && e.con.AbstractFloats
	a := strings.Join(args, " ")
	switch op {
	case "add", "sub", "mul", "div":
		if abs {
			return "(f" + op + " " + a + ")"
		}
		return "(fp." + op + " RNE " + a + ")"
	case "neg":
		if abs {
			return "(fneg " + a + ")"
		}
		return "(fp.neg " + a + ")"
	case "lt":
		if abs {
			return "(flt " + a + ")"
		}
		return "(fp.lt " + a + ")"
	case "leq":
		if abs {
			return "(fle " + a + ")"
		}
		return "(fp.leq " + a + ")"
	case "gt":
		if abs {
			return "(flt " + args[1] + " " + args[0] + ")"
		}
		return "(fp.gt " + a + ")"
	case "geq":
		if abs {
			return "(fle " + args[1] + " " + args[0] + ")"
		}
		return "(fp.geq " + a + ")"
	case "eq":
		if abs {
			return "(feq " + a + ")"
		}
		return "(fp.eq " + a + ")"
	case "i2f":
		if abs {
			return "(i2f " + a + ")"
		}
		return "((_ to_fp 11 53) RNE (to_real " + a + "))"
	case "f2i":
		if abs {
			return "(f2i " + a + ")"
		}
		return "(to_int (fp.to_real (fp.roundToIntegral RTZ " + a + ")))"
	}
	panic("fop " + op)
}

// assertGlobal: a fact that holds on every path (kept by every slice).
func (e *Enc) assertGlobal(t string) {
	line := fmt.Sprintf("(assert %s)\n", t)
	if e.globalFacts == nil {
		e.globalFacts = map[string]bool{}
	}
	if e.globalFacts[line] {
		return
	}
	e.globalFacts[line] = true
	e.lines = append(e.lines, bodyLine{text: line, blk: -1, assert: true})
}

// taints declared for the package of the function being verified.
func (e *Enc) taints() []*Taint {
	if e.fn == nil || e.fn.Pkg == nil {
		return nil
	}
	var out []*Taint
	for _, t := range e.P.specs.Taints {
		if t.PkgPath == e.fn.Pkg.Pkg.Path() {
			out = append(out, t)
		}
	}
	return out
}

func (e *Enc) taintApp(t *Taint, term string) string {
	sym := "specfn!" + t.Fn
	e.S.declare(sym, fmt.Sprintf("(declare-fun %s (Str) Bool)", q(sym)))
	return fmt.Sprintf("(%s %s)", q(sym), term)
}

// taintField: the value just loaded from field i of struct type st satisfies the taint predicates that list the field.
func (e *Enc) taintField(st types.Type, i int, term string) {
	ts := e.taints()
	if len(ts) == 0 {
		return
	}
	key, s := structKey(st)
	if s == nil || i >= s.NumFields() || !isString(s.Field(i).Type()) {
		return
	}
	// key is "<pkgpath>.<Type>": the directive names it "<pkgname>.<Type>.<Field>"
	short := key
	if j := strings.LastIndex(key, "/"); j >= 0 {
		short = key[j+1:]
	}
	name := short + "." + s.Field(i).Name()
	for _, t := range ts {
		if t.Fields[name] {
			e.assert(e.taintApp(t, term))
			e.note("taint " + t.Fn + ": values of field " + name + " satisfy it (assumed)")
		}
	}
}
