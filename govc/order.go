package main

// Order independence of `for k, v := range m` over a map (C13).
//
// Go leaves map iteration order unspecified, so a function containing such a
// loop is deterministic only if iterations commute. For a loop with header
// state S (an arbitrary state satisfying the loop invariants) and two distinct
// keys k1, k2 of the map, the body is encoded four times:
//
//	S --k1--> S1 --k2--> S12        S --k2--> S2 --k1--> S21
//
// and the obligation is: if the first order completes both iterations
// normally, so does the second, and S12 and S21 agree on every loop-carried
// value and on every pre-existing object of every heap variable the loop
// writes. Slices declared `bag <expr>` in the loop contract are compared as
// multisets (each key contributes the same elements in either order); this is
// only sound when the slice is sorted before any other use, which the contract
// author asserts with the directive and which is recorded as an assumption.
// Calls whose result is not pinned by a contract are modelled as functions of
// their arguments during this check (the same call on the same values yields
// the same value in both orders).

import (
	"fmt"
	"go/ast"
	"go/types"
	"sort"
	"strings"

	"golang.org/x/tools/go/ssa"
)

type loopState struct {
	phis map[*ssa.Phi]string
	heap *Heap
}

type execResult struct {
	st    loopState
	cond  string // iteration completed normally (reached the back edge)
	exits []string
}

// mapRangeParts finds the pieces of a lowered `range m` loop in its header.
func mapRangeParts(li *LoopInfo) (next *ssa.Next, ok, key, val *ssa.Extract, body *ssa.BasicBlock) {
	b := li.header
	for _, ins := range b.Instrs {
		switch x := ins.(type) {
		case *ssa.Next:
			if !x.IsString {
				next = x
			}
		case *ssa.Extract:
			if next != nil && x.Tuple == ssa.Value(next) {
				switch x.Index {
				case 0:
					ok = x
				case 1:
					key = x
				case 2:
					val = x
				}
			}
		}
	}
	if next == nil || ok == nil || len(b.Succs) != 2 {
		return nil, nil, nil, nil, nil
	}
	iff, isIf := b.Instrs[len(b.Instrs)-1].(*ssa.If)
	if !isIf || iff.Cond != ssa.Value(ok) {
		return nil, nil, nil, nil, nil
	}
	return next, ok, key, val, b.Succs[0]
}

func (f *Frame) execBody(li *LoopInfo, st loopState, reach string, body *ssa.BasicBlock, okx, keyx, valx *ssa.Extract, k, v string) execResult {
	e := f.e
	sub := e.newFrame(f.fn, f.depth, false)
	sub.parent = nil
	sub.args = f.args
	sub.selfTerm = f.selfTerm
	sub.entry = f.entry
	sub.orderExec = true
	for kk, vv := range f.vals {
		sub.vals[kk] = vv
	}
	for phi, t := range st.phis {
		sub.vals[phi] = Val{T: t}
	}
	sub.vals[okx] = Val{T: "true"}
	if keyx != nil {
		sub.vals[keyx] = Val{T: k}
	}
	if valx != nil {
		sub.vals[valx] = Val{T: v}
	}
	// the key/value extracts usually sit in the body: give them the tuple
	sub.vals[okx.Tuple] = Val{Tuple: []Val{{T: "true"}, {T: k}, {T: v}}}
	sub.private, sub.privateAllocs = f.private, f.privateAllocs
	rg := &region{blocks: li.blocks, entry: body, header: li.header}
	sub.runRegion(reach, st.heap.clone(), rg)
	res := execResult{st: loopState{phis: map[*ssa.Phi]string{}}}
	var conds []string
	var heaps []*Heap
	for _, end := range rg.ends {
		conds = append(conds, end.cond)
		heaps = append(heaps, end.heap)
	}
	if len(conds) == 0 {
		res.cond = "false"
		res.st.heap = st.heap.clone()
		for phi, t := range st.phis {
			res.st.phis[phi] = t
		}
		return res
	}
	res.cond = e.define("ordC", "Bool", or(conds...))
	res.st.heap = e.mergeHeaps(conds, heaps)
	for phi := range st.phis {
		var terms []string
		for _, end := range rg.ends {
			inc := phiIncoming(phi, end.from)
			if inc == nil {
				terms = append(terms, st.phis[phi])
				continue
			}
			terms = append(terms, sub.get(inc).T)
		}
		t := terms[len(terms)-1]
		for i := len(terms) - 2; i >= 0; i-- {
			t = fmt.Sprintf("(ite %s %s %s)", conds[i], terms[i], t)
		}
		res.st.phis[phi] = e.define("ordphi", e.S.sortOf(phi.Type()), t)
	}
	for _, ex := range rg.exits {
		res.exits = append(res.exits, ex.cond)
	}
	for _, r := range sub.rets {
		res.exits = append(res.exits, r.reach)
	}
	return res
}

// orderCheck emits the order-independence obligation for a map-range loop.
func (f *Frame) orderCheck(li *LoopInfo) {
	e := f.e
	if !f.top || e.dry || e.con == nil || e.mute > 0 {
		return
	}
	next, okx, keyx, valx, body := mapRangeParts(li)
	if next == nil {
		return
	}
	spec := li.spec
	tag := f.loopTag(li)
	if spec != nil && spec.OrderFree {
		e.note(fmt.Sprintf("%s %s: iteration order is declared irrelevant by the contract (%s); not checked", e.P.fnDisplay(f.fn), tag, spec.OrderReason))
		return
	}
	rng := next.Iter.(*ssa.Range)
	mt, isMap := rng.X.Type().Underlying().(*types.Map)
	if !isMap {
		return
	}
	coll := f.get(rng.X).T
	mark := len(e.lines)
	e.mute++
	e.orderMode = true
	defer func() {
		e.mute--
		e.orderMode = false
	}()
	st0 := loopState{phis: map[*ssa.Phi]string{}, heap: li.hdrHeap.clone()}
	for _, ins := range li.header.Instrs {
		if phi, ok := ins.(*ssa.Phi); ok {
			st0.phis[phi] = f.get(phi).T
		}
	}
	ks := e.S.sortOf(mt.Key())
	k1, k2 := e.fresh("ordk"), e.fresh("ordk")
	e.decl(k1, ks)
	e.decl(k2, ks)
	e.assumeWF("", k1, mt.Key())
	e.assumeWF("", k2, mt.Key())
	dom := e.hget(st0.heap, e.S.mapDomVar(mt))
	mv := e.hget(st0.heap, e.S.mapVar(mt))
	v1 := e.define("ordv", e.S.sortOf(mt.Elem()), fmt.Sprintf("(select (select %s %s) %s)", mv, coll, k1))
	v2 := e.define("ordv", e.S.sortOf(mt.Elem()), fmt.Sprintf("(select (select %s %s) %s)", mv, coll, k2))
	e.assumeWF("", v1, mt.Elem())
	e.assumeWF("", v2, mt.Elem())
	distinct := fmt.Sprintf("(not (= %s %s))", k1, k2)
	if isString(mt.Key()) {
		distinct = and(distinct, not(e.strEq(k1, k2)))
	}
	pre := and(f.curReach, distinct,
		fmt.Sprintf("(select (select %s %s) %s)", dom, coll, k1),
		fmt.Sprintf("(select (select %s %s) %s)", dom, coll, k2))
	for _, oa := range spec.OrderAssume {
		env := f.specEnv(li.hdrHeap, li, li.header)
		t, err := env.evalBool(oa.Expr)
		if err != nil {
			e.unsupp(fmt.Sprintf("%s orderassume: %v", tag, err))
			continue
		}
		pre = and(pre, t)
		e.note(fmt.Sprintf("%s %s: the order check assumes without proof: %s", e.P.fnDisplay(f.fn), tag, oa.Src))
	}
	r := e.define("ordR", "Bool", pre)
	a1 := f.execBody(li, st0, r, body, okx, keyx, valx, k1, v1)
	a12 := f.execBody(li, a1.st, e.define("ordR", "Bool", and(r, a1.cond)), body, okx, keyx, valx, k2, v2)
	b2 := f.execBody(li, st0, r, body, okx, keyx, valx, k2, v2)
	b21 := f.execBody(li, b2.st, e.define("ordR", "Bool", and(r, b2.cond)), body, okx, keyx, valx, k1, v1)

	// equality of the final states
	var eq []string
	var eqNames []string
	bagPhis := map[*ssa.Phi]bool{}
	var phis []*ssa.Phi
	for phi := range st0.phis {
		phis = append(phis, phi)
	}
	sort.Slice(phis, func(i, j int) bool { return phis[i].Name() < phis[j].Name() })
	for _, phi := range phis {
		isBag := false
		for _, b := range spec.Bags {
			if b == phi.Comment {
				isBag = true
			}
		}
		if isBag {
			bagPhis[phi] = true
			sortedOK := sortedBeforeUse(phi, li)
			e.mute--
			c := "false"
			if sortedOK {
				c = "true"
			}
			e.addObl("order.sorted", tag+":"+phi.Comment, "true", c, li.header.Instrs[0].Pos(), "a slice compared as a multiset is sorted by sort.Strings or sort.Ints (a total order) before any other use after the loop", f.props())
			e.mute++
			if sl, ok := phi.Type().Underlying().(*types.Slice); ok {
				eq = append(eq, f.bagDeltaEq(sl, st0.phis[phi], a1, a12, b2, b21, phi))
				eqNames = append(eqNames, "bag:"+phi.Comment)
			}
			continue
		}
		if phi.Comment == "rangeindex" || phi.Comment == "rangeiter" {
			continue
		}
		eq = append(eq, f.valueEq(phi.Type(), a12.st.phis[phi], b21.st.phis[phi], a12.st.heap, b21.st.heap))
		eqNames = append(eqNames, "var:"+phi.Comment)
	}
	// bags of the form x[:c]: slice x (fixed during the loop) filled up to counter c
	bagVars := map[string]bool{}
	for _, b := range spec.Bags {
		i := strings.Index(b, "[:")
		if i < 0 || !strings.HasSuffix(b, "]") {
			continue
		}
		xname, cname := b[:i], b[i+2:len(b)-1]
		sv, ok := f.lookupName(xname, li, li.header)
		var cphi *ssa.Phi
		for _, phi := range phis {
			if phi.Comment == cname {
				cphi = phi
			}
		}
		if !ok || cphi == nil {
			e.unsupp("bag " + b + ": cannot resolve")
			continue
		}
		sl, isSl := sv.t.Underlying().(*types.Slice)
		if !isSl {
			continue
		}
		xt := sv.v.T
		if sv.loc != nil {
			xt = e.load(st0.heap, sv.loc)
		}
		ev := e.S.elemVar(sl.Elem())
		bagVars[ev] = true
		el := func(st loopState, idx string) string {
			return fmt.Sprintf("(select (select %s (sl_base %s)) (+ (sl_off %s) %s))", e.hget(st.heap, ev), xt, xt, idx)
		}
		c := func(st loopState) string { return st.phis[cphi] }
		c0 := st0.phis[cphi]
		d1 := fmt.Sprintf("(and (= (- %s %s) (- %s %s)) (forall ((j Int)) (=> (and (<= 0 j) (< j (- %s %s))) (= %s %s))))",
			c(a1.st), c0, c(b21.st), c(b2.st), c(a1.st), c0, el(a1.st, "(+ "+c0+" j)"), el(b21.st, "(+ "+c(b2.st)+" j)"))
		d2 := fmt.Sprintf("(and (= (- %s %s) (- %s %s)) (forall ((j Int)) (=> (and (<= 0 j) (< j (- %s %s))) (= %s %s))))",
			c(b2.st), c0, c(a12.st), c(a1.st), c(b2.st), c0, el(b2.st, "(+ "+c0+" j)"), el(a12.st, "(+ "+c(a1.st)+" j)"))
		eq = append(eq, and(d1, d2))
		eqNames = append(eqNames, "bag:"+b)
		sortedOK := false
		if iv, isInstr := f.bagBaseValue(xname, li); isInstr != nil {
			_ = iv
			sortedOK = sortedValueBeforeUse(isInstr, li)
		}
		e.mute--
		cst := "false"
		if sortedOK {
			cst = "true"
		}
		e.addObl("order.sorted", tag+":"+xname, "true", cst, li.header.Instrs[0].Pos(), "a slice compared as a multiset is sorted by sort.Strings or sort.Ints (a total order) before any other use after the loop", f.props())
		e.mute++
	}
	ws := e.loopWriteSet(f, li)
	allocHdr := e.hget(st0.heap, "$alloc")
	for _, hv := range ws {
		if frameExempt(hv) {
			continue
		}
		x, y := e.hget(a12.st.heap, hv), e.hget(b21.st.heap, hv)
		if x == y {
			continue
		}
		bagArr := false
		for phi := range bagPhis {
			if sl, ok := phi.Type().Underlying().(*types.Slice); ok && e.S.elemVar(sl.Elem()) == hv {
				bagArr = true
			}
		}
		if bagArr || bagVars[hv] {
			continue // contents of bag-compared slices are covered by the bag comparison
		}
		if strings.HasPrefix(e.S.heapSort[hv], "(Array Int ") {
			eq = append(eq, fmt.Sprintf("(forall ((r Int)) (=> (and (> r 0) (< r %s)) (= (select %s r) (select %s r))))", allocHdr, x, y))
		} else {
			eq = append(eq, fmt.Sprintf("(= %s %s)", x, y))
		}
		eqNames = append(eqNames, "heap:"+hv)
	}
	goal := and(append([]string{b2.cond, b21.cond}, eq...)...)
	hyp := and(r, a1.cond, a12.cond)
	// exits: an early exit (break / return inside the body) must not depend on which key comes first
	var exitParts []string
	if len(a1.exits) > 0 || len(b2.exits) > 0 {
		ex1, ex2 := or(a1.exits...), or(b2.exits...)
		if !spec.ExitAny {
			exitParts = append(exitParts, fmt.Sprintf("(=> %s (not (and %s %s)))", r, ex1, ex2))
		} else {
			e.note(fmt.Sprintf("%s %s: which of several exiting iterations is taken first is declared irrelevant (%s)", e.P.fnDisplay(f.fn), tag, spec.OrderReason))
		}
	}
	// a loop with an early exit is deterministic when at most one key exits and the
	// iterations that do not exit leave no trace (the exiting key then sees the
	// same state whichever keys were visited before it)
	var noopParts []string
	if len(a1.exits) > 0 && !spec.ExitAny {
		var same []string
		for _, phi := range phis {
			if phi.Comment == "rangeindex" || phi.Comment == "rangeiter" {
				continue
			}
			same = append(same, f.valueEq(phi.Type(), b2.st.phis[phi], st0.phis[phi], b2.st.heap, st0.heap))
		}
		for _, hv := range ws {
			if frameExempt(hv) {
				continue
			}
			x, y := e.hget(b2.st.heap, hv), e.hget(st0.heap, hv)
			if x == y {
				continue
			}
			if strings.HasPrefix(e.S.heapSort[hv], "(Array Int ") {
				same = append(same, fmt.Sprintf("(forall ((r Int)) (=> (and (> r 0) (< r %s)) (= (select %s r) (select %s r))))", allocHdr, x, y))
			} else {
				same = append(same, fmt.Sprintf("(= %s %s)", x, y))
			}
		}
		noopParts = append(noopParts, fmt.Sprintf("(=> (and %s %s %s) %s)", r, or(a1.exits...), b2.cond, and(same...)))
	}
	e.mute--
	for _, p := range noopParts {
		e.addObl("order.exit.noop", tag, "true", p, li.header.Instrs[0].Pos(), "iterations that do not leave the loop early change nothing the exiting iteration or the code after the loop can see", f.props())
	}
	src := "iterations commute: " + strings.Join(eqNames, ", ")
	e.addObl("order", tag, hyp, goal, li.header.Instrs[0].Pos(), src, f.props())
	for _, p := range exitParts {
		e.addObl("order.exit", tag, "true", p, li.header.Instrs[0].Pos(), "at most one key can make the loop exit early", f.props())
	}
	e.mute++
	// the four body encodings are only needed by the obligations above
	e.lines = e.lines[:mark]
}

// valueEq: equality of two values of a Go type, looking through slices.
func (f *Frame) valueEq(t types.Type, a, b string, ha, hb *Heap) string {
	e := f.e
	if sl, ok := t.Underlying().(*types.Slice); ok {
		ev := e.S.elemVar(sl.Elem())
		ea, eb := e.hget(ha, ev), e.hget(hb, ev)
		return fmt.Sprintf("(and (= (sl_len %s) (sl_len %s)) (forall ((j Int)) (=> (and (<= 0 j) (< j (sl_len %s))) (= (select (select %s (sl_base %s)) (+ (sl_off %s) j)) (select (select %s (sl_base %s)) (+ (sl_off %s) j))))))", a, b, a, ea, a, a, eb, b, b)
	}
	if isString(t) {
		return e.strEq(a, b)
	}
	return fmt.Sprintf("(= %s %s)", a, b)
}

// bagDeltaEq: each key appends the same elements whichever order is taken.
func (f *Frame) bagDeltaEq(sl *types.Slice, s0 string, a1, a12, b2, b21 execResult, phi *ssa.Phi) string {
	e := f.e
	ev := e.S.elemVar(sl.Elem())
	el := func(st loopState, idx string) string {
		s := st.phis[phi]
		return fmt.Sprintf("(select (select %s (sl_base %s)) (+ (sl_off %s) %s))", e.hget(st.heap, ev), s, s, idx)
	}
	ln := func(st loopState) string { return "(sl_len " + st.phis[phi] + ")" }
	l0 := "(sl_len " + s0 + ")"
	// k1's contribution: a1 beyond l0  vs  b21 beyond len(b2)
	d1 := fmt.Sprintf("(and (= (- %s %s) (- %s %s)) (forall ((j Int)) (=> (and (<= 0 j) (< j (- %s %s))) (= %s %s))))",
		ln(a1.st), l0, ln(b21.st), ln(b2.st), ln(a1.st), l0, el(a1.st, "(+ "+l0+" j)"), el(b21.st, "(+ "+ln(b2.st)+" j)"))
	d2 := fmt.Sprintf("(and (= (- %s %s) (- %s %s)) (forall ((j Int)) (=> (and (<= 0 j) (< j (- %s %s))) (= %s %s))))",
		ln(b2.st), l0, ln(a12.st), ln(a1.st), ln(b2.st), l0, el(b2.st, "(+ "+l0+" j)"), el(a12.st, "(+ "+ln(a1.st)+" j)"))
	return and(d1, d2)
}

// sortedBeforeUse: every use of the loop-carried slice outside the loop is a
// sort call on it, or is dominated by such a call.
func sortedBeforeUse(phi *ssa.Phi, li *LoopInfo) bool {
	refs := phi.Referrers()
	if refs == nil {
		return false
	}
	var sortCalls []ssa.Instruction
	var others []ssa.Instruction
	for _, r := range *refs {
		if li.blocks[r.Block().Index] {
			continue
		}
		if _, isDbg := r.(*ssa.DebugRef); isDbg {
			continue
		}
		if call, ok := r.(*ssa.Call); ok {
			if fn, ok := call.Call.Value.(*ssa.Function); ok && fn.Pkg != nil && totalOrderSort(fn) && len(call.Call.Args) > 0 {
				arg := call.Call.Args[0]
				if arg == ssa.Value(phi) {
					sortCalls = append(sortCalls, r)
					continue
				}
				// sort.Sort(sort.StringSlice(x)) / MakeInterface wrappers
				if mi, ok := arg.(*ssa.MakeInterface); ok {
					if ct, ok := mi.X.(*ssa.ChangeType); ok && ct.X == ssa.Value(phi) {
						sortCalls = append(sortCalls, r)
						continue
					}
				}
			}
		}
		others = append(others, r)
	}
	if len(sortCalls) == 0 {
		return false
	}
	sc := sortCalls[0]
	for _, o := range others {
		if o.Block() == sc.Block() {
			after := false
			for _, ins := range sc.Block().Instrs {
				if ins == sc {
					after = true
				}
				if ins == o && !after {
					return false
				}
			}
			continue
		}
		if !sc.Block().Dominates(o.Block()) {
			return false
		}
	}
	return true
}

// bagBaseValue finds the SSA value a slice variable denotes at the loop header.
func (f *Frame) bagBaseValue(name string, li *LoopInfo) (string, ssa.Value) {
	for _, b := range f.fn.Blocks {
		for _, ins := range b.Instrs {
			if d, ok := ins.(*ssa.DebugRef); ok && !d.IsAddr {
				if id, ok := d.Expr.(*ast.Ident); ok && id.Name == name && b.Dominates(li.header) {
					return name, d.X
				}
			}
		}
	}
	return name, nil
}

// sortedValueBeforeUse: like sortedBeforeUse for a slice value defined before the loop.
func sortedValueBeforeUse(v ssa.Value, li *LoopInfo) bool {
	refs := v.Referrers()
	if refs == nil {
		return false
	}
	var sc ssa.Instruction
	var others []ssa.Instruction
	for _, r := range *refs {
		if li.blocks[r.Block().Index] {
			continue
		}
		if _, isDbg := r.(*ssa.DebugRef); isDbg {
			continue
		}
		if !li.header.Dominates(r.Block()) {
			continue // before the loop
		}
		if call, ok := r.(*ssa.Call); ok && sc == nil {
			if fn, ok := call.Call.Value.(*ssa.Function); ok && fn.Pkg != nil && totalOrderSort(fn) && len(call.Call.Args) > 0 && call.Call.Args[0] == v {
				sc = r
				continue
			}
		}
		others = append(others, r)
	}
	if sc == nil {
		return false
	}
	for _, o := range others {
		if o.Block() == sc.Block() {
			after := false
			for _, ins := range sc.Block().Instrs {
				if ins == sc {
					after = true
				}
				if ins == o && !after {
					return false
				}
			}
			continue
		}
		if !sc.Block().Dominates(o.Block()) {
			return false
		}
	}
	return true
}

// mapRangeCoverage: every `range` over a map in the repository must either
// have an order obligation among obls (its function is verified for prop) or
// be declared order-free by a contract. The result is one pre-decided
// obligation per loop, so that a new, uncontracted map-range loop is reported.
func (p *Prog) mapRangeCoverage(prop string, obls []*Obligation) ([]*Obligation, []string) {
	have := map[string]bool{}
	for _, o := range obls {
		if o.Kind == "order" && o.ok() {
			// only a discharged order obligation covers its loop: one that no solver
			// decides leaves the loop without an order-independence proof
			have[o.Name] = true
		}
	}
	var keys []string
	for k, fn := range p.funcs {
		if p.inRepo(fn) && fn.Blocks != nil && fn.Synthetic == "" {
			keys = append(keys, k)
		}
	}
	sort.Strings(keys)
	var out []*Obligation
	var notes []string
	for _, k := range keys {
		fn := p.funcs[k]
		var loops []*LoopInfo
		hasRange := false
		for _, b := range fn.Blocks {
			for _, ins := range b.Instrs {
				if r, ok := ins.(*ssa.Range); ok {
					if _, isMap := r.X.Type().Underlying().(*types.Map); isMap {
						hasRange = true
					}
				}
			}
		}
		if !hasRange {
			continue
		}
		loops = findLoops(fn)
		con := p.specs.Contracts[k]
		disp := p.fnDisplay(fn)
		nr := 0
		for _, b := range fn.Blocks {
			for _, ins := range b.Instrs {
				rg, ok := ins.(*ssa.Range)
				if !ok {
					continue
				}
				if _, isMap := rg.X.Type().Underlying().(*types.Map); !isMap {
					continue
				}
				// the loop whose header takes the next element of this iterator
				var li *LoopInfo
				for _, ref := range *rg.Referrers() {
					if nx, isNext := ref.(*ssa.Next); isNext {
						for _, l := range loops {
							if l.header == nx.Block() {
								li = l
							}
						}
					}
				}
				tag := fmt.Sprintf("range%d", nr)
				nr++
				if li != nil {
					tag = fmt.Sprintf("loop%d", li.ordinal)
				}
				o := &Obligation{Name: disp + "#order.covered:" + tag, Kind: "order.covered", Fn: disp, Pos: p.fset.Position(rg.Pos()).String(), Props: []string{prop}, Solver: "structural", Result: "sat",
					Src: "every range over a map has a discharged order-independence obligation or a recorded reason"}
				switch {
				case li == nil:
					// no back edge: the body always leaves in its first iteration, i.e. it picks
					// whichever key the runtime yields first
					o.Src = "a range over a map whose body always exits in the first iteration takes an arbitrary element"
				case con != nil && con.Loops[li.ordinal] != nil && con.Loops[li.ordinal].OrderFree:
					o.Result = "unsat"
					notes = append(notes, fmt.Sprintf("%s %s (%s): iteration order declared irrelevant, not checked: %s", disp, tag, o.Pos, con.Loops[li.ordinal].OrderReason))
				case con != nil && hasProp(con.Props, prop) && have[disp+"#order:"+tag]:
					o.Result = "unsat"
				}
				out = append(out, o)
			}
		}
	}
	return out, notes
}

// totalOrderSort: library sorts whose result is a function of the multiset of
// elements (a total order in which equal elements are indistinguishable).
// sort.Slice / sort.Sort / sort.Stable with a caller-supplied order are not
// accepted: if that order is not total on the elements (e.g. case-insensitive
// comparison of distinct strings) the result still depends on the input order.
func totalOrderSort(fn *ssa.Function) bool {
	if fn.Pkg == nil || fn.Pkg.Pkg.Path() != "sort" {
		return false
	}
	return fn.Name() == "Strings" || fn.Name() == "Ints"
}
