package main

import (
	"fmt"
	"go/ast"
	"go/token"
	"go/types"
	"sort"
	"strings"

	"golang.org/x/tools/go/ssa"
)

type callKind int

const (
	ckContract callKind = iota
	ckInline
	ckHavocAll
	ckExternPure
)

// calleeKey is the short name used in `at call` keys and obligation names.
func (p *Prog) calleeKey(caller *ssa.Function, common *ssa.CallCommon) string {
	if common.IsInvoke() {
		t := common.Value.Type()
		return types.TypeString(t, func(pk *types.Package) string { return pk.Name() }) + "." + common.Method.Name()
	}
	switch c := common.Value.(type) {
	case *ssa.Function:
		return p.shortFn(c)
	case *ssa.Builtin:
		return c.Name()
	case *ssa.MakeClosure:
		return p.shortFn(c.Fn.(*ssa.Function))
	}
	return "funcvalue"
}

func (p *Prog) shortFn(fn *ssa.Function) string {
	if fn.Pkg == nil {
		if fn.Parent() != nil {
			return p.shortFn(fn.Parent()) + "$" + strings.TrimPrefix(fn.Name(), fn.Parent().Name()+"$")
		}
		// synthetic wrappers / instantiated generics
		return fn.String()
	}
	rel := fn.RelString(fn.Pkg.Pkg)
	if recv := fn.Signature.Recv(); recv != nil {
		if p.inRepo(fn) {
			return rel
		}
		return "(" + types.TypeString(recv.Type(), func(pk *types.Package) string { return pk.Name() }) + ")." + fn.Name()
	}
	return fn.Pkg.Pkg.Name() + "." + rel
}

func (e *Enc) decideCall(callee *ssa.Function, depth int) (callKind, *Contract) {
	if c := e.P.contractFor(callee); c != nil {
		if c.Inline && callee.Blocks != nil && depth < maxInlineDepth && callee != e.fn {
			return ckInline, nil
		}
		return ckContract, c
	}
	if !e.P.inRepo(callee) {
		return ckExternPure, nil
	}
	if callee.Name() == "init" && callee.Signature.Recv() == nil && callee.Parent() == nil && callee.Pkg != e.fn.Pkg {
		return ckExternPure, nil // initialisers of imported packages touch only their own globals
	}
	if callee.Blocks == nil {
		return ckExternPure, nil
	}
	if depth >= maxInlineDepth {
		return ckHavocAll, nil
	}
	for _, s := range e.inlineStack {
		if s == callee {
			return ckHavocAll, nil
		}
	}
	if callee == e.fn {
		return ckHavocAll, nil
	}
	if len(callee.Blocks) > 40 {
		return ckHavocAll, nil
	}
	return ckInline, nil
}

func (f *Frame) call(site ssa.Instruction, common *ssa.CallCommon, pos token.Pos) Val {
	e := f.e
	siteKey, okk := f.siteKeys[site]
	if !okk {
		siteKey = e.P.calleeKey(f.fn, common) + "#?"
	}
	var args []Val
	if common.IsInvoke() {
		args = append(args, f.get(common.Value))
	}
	for _, a := range common.Args {
		args = append(args, f.get(a))
	}
	resT := common.Signature().Results()
	var rt types.Type = resT
	if resT.Len() == 1 {
		rt = resT.At(0).Type()
	}
	// the address of a package-level variable handed to a callee lets the callee
	// write it: under a contract that preserves that variable this is a write
	if f.e.con != nil && f.e.con.ModAll && len(f.e.con.Preserves) > 0 {
		vals := append([]ssa.Value{}, common.Args...)
		if !common.IsInvoke() {
			vals = append(vals, common.Value)
		}
		for _, a := range vals {
			if g, ok := a.(*ssa.Global); ok {
				var pkgp string
				if g.Pkg != nil {
					pkgp = g.Pkg.Pkg.Path()
				}
				hv := "G!" + pkgp + "." + g.Name()
				if matchPreserves(f.e.con.Preserves, hv) {
					name := g.Name()
					if !f.top {
						name = "in:" + f.e.P.fnDisplay(f.fn) + ":" + name
					}
					f.e.addObl("globaladdr", name, f.curReach, "false", pos, "the address of a preserved package-level variable escapes to a callee", f.props())
				}
			}
		}
	}
	f.curCallArgs = common.Args
	f.curArgTypes = nil
	f.curResTypes = common.Signature().Results()
	if common.IsInvoke() {
		f.curArgTypes = append(f.curArgTypes, common.Value.Type())
	}
	for _, a := range common.Args {
		f.curArgTypes = append(f.curArgTypes, a.Type())
	}
	f.ghostHooks(siteKey, args, Val{}, false)
	var out Val
	switch c := common.Value.(type) {
	case *ssa.Builtin:
		out = f.builtin(c, common, args, site, pos)
		f.ghostHooks(siteKey, args, out, true)
		return out
	}
	if common.IsInvoke() {
		out = f.invoke(common, args, rt, siteKey, pos)
		f.ghostHooks(siteKey, args, out, true)
		return out
	}
	var callee *ssa.Function
	var bindings []ssa.Value
	switch c := common.Value.(type) {
	case *ssa.Function:
		callee = c
	case *ssa.MakeClosure:
		callee = c.Fn.(*ssa.Function)
		bindings = c.Bindings
	}
	if callee == nil {
		out = f.funcValueCall(common, args, rt, siteKey, pos)
		f.ghostHooks(siteKey, args, out, true)
		return out
	}
	kind, con := e.decideCall(callee, f.depth)
	if _, isDefer := site.(*ssa.Defer); !isDefer && !f.inPanicSim {
		if mayPanic(e.P, callee, con) {
			f.panicExitCheck(siteKey, pos)
		}
	}
	if _, isDefer := site.(*ssa.Defer); isDefer && kind == ckContract && con.Handler && !f.inPanicSim {
		// a recover handler run on the normal return path sees recover() == nil:
		// encode its body (not its contract, which describes the panicking case)
		kind = ckInline
	}
	switch kind {
	case ckContract:
		out = f.applyContract(con, callee, args, rt, siteKey, pos)
	case ckInline:
		out = f.inline(callee, args, bindings, rt)
	case ckHavocAll:
		e.note("call to " + e.P.shortFn(callee) + " (no contract, not inlined): result and whole heap havoced")
		f.havocAll()
		out = f.havocVal(rt, "ret")
	default:
		if callee.Name() == "init" && callee.Signature.Recv() == nil {
			e.note("initialisers of imported packages are assumed to touch only their own package state")
		} else {
			e.note("extern " + e.P.shortFn(callee) + ": no assumed contract; result unconstrained, /repo heap assumed untouched")
		}
		out = f.functionalResult("uf!"+callee.String(), args, common, rt, "ext")
		f.bumpAlloc()
	}
	if out.T != "" && out.Tuple == nil && out.Loc == nil {
		f.assumeAllocated(out.T, rt, 0)
	}
	for i, tv := range out.Tuple {
		if tup, ok := rt.(*types.Tuple); ok && i < tup.Len() && tv.T != "" {
			f.assumeAllocated(tv.T, tup.At(i).Type(), 0)
		}
	}
	f.ghostHooks(siteKey, args, out, true)
	return out
}

func (f *Frame) bumpAlloc() {
	e := f.e
	av := e.S.allocVar()
	before := e.hget(f.heap, av)
	e.hhavoc(f.heap, av)
	e.assert(fmt.Sprintf("(>= %s %s)", e.hget(f.heap, av), before))
}

func (f *Frame) havocAll() { f.havocAllExcept(nil) }

func (f *Frame) havocAllExcept(keep []string) {
	e := f.e
	before := f.heap.clone()
	defer func() {
		// cells of non-escaping locals cannot be written by any callee
		for fr := f; fr != nil; fr = fr.parent {
			for i, l := range fr.private {
				if i < len(fr.privateAllocs) && passedToCurrentCall(f, fr.privateAllocs[i]) {
					continue // its address is an argument of this very call: the callee may write it
				}
				for _, hv := range e.heapVarsOfLoc(l) {
					now, old := e.hget(f.heap, hv), e.hget(before, hv)
					if now != old {
						e.assert(fmt.Sprintf("(= (select %s %s) (select %s %s))", now, l.Ptr, old, l.Ptr))
					}
				}
			}
		}
	}()
	for _, v := range e.allHeapVars {
		if strings.HasPrefix(v, "ghost!") {
			continue
		}
		if v == "$alloc" || (len(keep) > 0 && matchPreserves(keep, v)) {
			continue
		}
		e.hhavoc(f.heap, v)
	}
	for v := range f.heap.m {
		if strings.HasPrefix(v, "ghost!") || v == "$alloc" || (len(keep) > 0 && matchPreserves(keep, v)) {
			continue
		}
		known := false
		for _, k := range e.allHeapVars {
			if k == v {
				known = true
			}
		}
		if !known {
			e.hhavoc(f.heap, v)
		}
	}
	f.bumpAlloc()
}

func (f *Frame) invoke(common *ssa.CallCommon, args []Val, rt types.Type, siteKey string, pos token.Pos) Val {
	e := f.e
	key := "iface:" + types.TypeString(common.Value.Type(), nil) + "." + common.Method.Name()
	f.safety("nilcall", describe(common.Value, 0)+"."+common.Method.Name()+"()", fmt.Sprintf("(not (= (i_tag %s) 0))", args[0].T), pos)
	if con := e.P.specs.Contracts[key]; con != nil {
		return f.applyContractNamed(con, contractParamNames(con, common.Signature(), true), args, rt, siteKey, pos, key)
	}
	e.note("interface call " + strings.TrimPrefix(key, "iface:") + ": no contract; result unconstrained, heap assumed untouched")
	f.bumpAlloc()
	return f.functionalResult("uf!"+key, args, common, rt, "inv")
}

func (f *Frame) funcValueCall(common *ssa.CallCommon, args []Val, rt types.Type, siteKey string, pos token.Pos) Val {
	e := f.e
	if nt, ok := types.Unalias(common.Value.Type()).(*types.Named); ok {
		key := "functype:" + typeKey(nt)
		if con := e.P.specs.Contracts[key]; con != nil {
			names := contractParamNames(con, common.Signature(), false)
			env := map[string]specVal{"self": {v: f.get(common.Value), t: common.Value.Type()}}
			return f.applyContractEnv(con, names, args, common.Signature(), rt, siteKey, pos, key, env)
		}
	}
	if con := e.P.specs.Contracts["functype:*"]; con != nil {
		e.note("assumed contract for calls through function values (user-registered functions / directives): " + strings.Join(con.Preserves, " ") + " preserved")
		return f.applyContractEnv(con, nil, args, common.Signature(), rt, siteKey, pos, "functype:*", nil)
	}
	e.note("call through a function value: whole heap havoced")
	f.havocAll()
	return f.havocVal(rt, "fv")
}

// contractParamNames: parameter names for contracts that are not attached to
// one concrete function (interface methods, function types): a0, a1, ... and
// recv for the receiver.
func contractParamNames(con *Contract, sig *types.Signature, invoke bool) []string {
	var names []string
	if invoke {
		names = append(names, "recv")
	}
	for i := 0; i < sig.Params().Len(); i++ {
		n := sig.Params().At(i).Name()
		if n == "" || n == "_" {
			n = fmt.Sprintf("a%d", i)
		}
		if con != nil && i < len(con.ParamNames) {
			n = con.ParamNames[i]
		}
		names = append(names, n)
	}
	return names
}

func (f *Frame) applyContract(con *Contract, callee *ssa.Function, args []Val, rt types.Type, siteKey string, pos token.Pos) Val {
	var names []string
	for _, p := range callee.Params {
		names = append(names, p.Name())
	}
	extra := map[string]specVal{"self": {v: Val{T: f.e.fnId(callee)}, t: callee.Signature}}
	return f.applyContractEnv(con, names, args, callee.Signature, rt, siteKey, pos, f.e.P.shortFn(callee), extra)
}

func (f *Frame) applyContractNamed(con *Contract, names []string, args []Val, rt types.Type, siteKey string, pos token.Pos, disp string) Val {
	return f.applyContractEnv(con, names, args, nil, rt, siteKey, pos, disp, nil)
}

func (f *Frame) applyContractEnv(con *Contract, names []string, args []Val, sig *types.Signature, rt types.Type, siteKey string, pos token.Pos, disp string, extra map[string]specVal) Val {
	e := f.e
	if con.Extern || con.Trusted {
		e.note("assumed contract: " + disp)
	}
	pkg := f.fn.Pkg
	var tpkg *types.Package
	if pkg != nil {
		tpkg = pkg.Pkg
	}
	if con.PkgPath != "" {
		if pp := e.P.pkgByPath(con.PkgPath); pp != nil {
			tpkg = pp
		}
	}
	mkEnv := func(h *Heap) *SpecEnv {
		env := &SpecEnv{e: e, f: f, heap: h, pkg: tpkg, names: map[string]specVal{}}
		for i, n := range names {
			if i < len(args) {
				var t types.Type
				if sig != nil {
					if sig.Recv() != nil {
						if i == 0 {
							t = sig.Recv().Type()
						} else if i-1 < sig.Params().Len() {
							t = sig.Params().At(i - 1).Type()
						}
					} else if i < sig.Params().Len() {
						t = sig.Params().At(i).Type()
					}
				}
				if t == nil && sig == nil && i < len(f.curArgTypes) {
					t = f.curArgTypes[i] // interface calls: the static types of the call's operands
				}
				if t == nil {
					t = tInt
				}
				env.names[n] = specVal{v: args[i], t: t}
			}
		}
		for k, v := range extra {
			env.names[k] = v
		}
		return env
	}
	pre := mkEnv(f.heap)
	// implicit: pointer parameters non-nil
	for i, c := range con.Requires {
		t, err := pre.evalBool(c.Expr)
		if err != nil {
			e.unsupp(fmt.Sprintf("requires of %s: %v", disp, err))
			continue
		}
		shared := false
		cprops := con.Props
		if c.Props != nil {
			cprops = c.Props // clause-level property tags decide who must discharge the precondition
		}
		for _, cp := range cprops {
			// the calling function claims the property at function level or through one of its clauses
			if hasProp(f.props(), cp) || (e.con != nil && e.con.clauseHasProp(cp)) {
				shared = true
			}
		}
		if shared || len(cprops) == 0 || con.Extern {
			e.addObl("pre", siteKey+":"+clauseLabel(c, i), f.curReach, t, pos, c.Src, clauseProps(c, f.props()))
		} else {
			e.note(fmt.Sprintf("precondition of %s (%s) is assumed at the call: it belongs to %v, which this function's contract does not claim", disp, c.Src, cprops))
		}
		e.assumeAt(f.curReach, t)
	}
	lexBelow := func(kind string, callee, caller []Clause, why string) {
		if len(callee) == 0 || !f.top || e.con == nil || len(caller) == 0 {
			return
		}
		// recursion: the callee's tuple at the call is lexicographically below
		// this function's tuple at its entry
		centry := f.specEnv(f.entry, nil, nil)
		var cur, ent []string
		for i := 0; i < len(callee) && i < len(caller); i++ {
			a, _, err1 := pre.eval(callee[i].Expr)
			b, _, err2 := centry.eval(caller[i].Expr)
			if err1 != nil || err2 != nil {
				e.unsupp(fmt.Sprintf("%s of %s: %v %v", kind, disp, err1, err2))
				return
			}
			cur = append(cur, a.T)
			ent = append(ent, b.T)
		}
		if len(cur) == 0 {
			return
		}
		cond := "false"
		for i := len(cur) - 1; i >= 0; i-- {
			dec := fmt.Sprintf("(and (< %s %s) (>= %s 0))", cur[i], ent[i], ent[i])
			if i == len(cur)-1 {
				cond = dec
			} else {
				cond = fmt.Sprintf("(or %s (and (= %s %s) %s))", dec, cur[i], ent[i], cond)
			}
		}
		if kind == "stack" {
			// every component stays a natural number: the first starts from a constant
			// and the rank is a literal, so this bounds the length of any chain of calls
			for _, c := range cur {
				cond = fmt.Sprintf("(and %s (>= %s 0))", cond, c)
			}
		}
		e.addObl(kind, siteKey, f.curReach, cond, pos, why, f.props())
	}
	lexBelow("measure", con.Measure, e.con.measureOf(), "callee measure below caller's entry measure")
	lexBelow("stack", con.Stack, e.con.stackOf(), "callee stack bound below caller's entry stack bound (nesting depth of calls bounded)")
	oldHeap := f.heap.clone()
	if con.ModAll || (len(con.Modifies) == 0 && !con.Pure && !con.Extern) {
		// no frame declared: the callee may change anything -- except the heap variables
		// it preserves. Those keep their value: pre-existing objects are unchanged by
		// contract, and cells of objects the callee allocates were unconstrained
		// before the call, which already models "whatever the callee stored there".
		keep := append([]string{}, con.Preserves...)
		type fo struct {
			ptr string
			t   types.Type
		}
		var fos []fo
		for _, c := range con.FieldsOf {
			v, vt, err := mkEnv(oldHeap).eval(c.Expr)
			pt, ok := vt.Underlying().(*types.Pointer)
			if err != nil || !ok {
				e.unsupp("fieldsof " + c.Src)
				continue
			}
			if key, st := structKey(pt.Elem()); st != nil {
				keep = append(keep, "F!"+key+"!*")
				fos = append(fos, fo{v.T, pt.Elem()})
			}
		}
		f.havocAllExcept(keep)
		for _, x := range fos {
			_, st := structKey(x.t)
			for i := 0; i < st.NumFields(); i++ {
				fv := e.S.fieldVar(x.t, i)
				nv := f.havocVal(st.Field(i).Type(), "fld")
				e.hset(f.heap, fv, fmt.Sprintf("(store %s %s %s)", e.hget(f.heap, fv), x.ptr, nv.T))
			}
		}
	} else {
		// all locations are evaluated in the pre-state, then havoced
		preState := mkEnv(oldHeap)
		var locs []specVal
		for _, m := range con.Modifies {
			sv, err := preState.evalLoc(m.Expr)
			if err != nil || sv.loc == nil {
				e.unsupp(fmt.Sprintf("modifies of %s: %s: %v", disp, m.Src, err))
				continue
			}
			locs = append(locs, sv)
		}
		for _, sv := range locs {
			if sv.loc.Kind == locMapAll {
				mt := sv.loc.T.Underlying().(*types.Map)
				for _, hv := range []string{e.S.mapVar(mt), e.S.mapDomVar(mt)} {
					so := e.S.heapSort[hv]
					inner := strings.TrimSuffix(strings.TrimPrefix(so, "(Array Int "), ")")
					n := e.fresh("modmap")
					e.decl(n, inner)
					e.hset(f.heap, hv, fmt.Sprintf("(store %s %s %s)", e.hget(f.heap, hv), sv.loc.Ptr, n))
				}
				ln := f.havocVal(tInt, "modmaplen")
				e.assert("(>= " + ln.T + " 0)")
				e.hset(f.heap, e.S.mapLenVar(), fmt.Sprintf("(store %s %s %s)", e.hget(f.heap, e.S.mapLenVar()), sv.loc.Ptr, ln.T))
				continue
			}
			if sv.loc.Kind == locElemAll {
				n := e.fresh("modarr")
				e.decl(n, "(Array Int "+e.S.sortOf(sv.loc.T)+")")
				e.store(f.heap, sv.loc, n)
				continue
			}
			hv := f.havocVal(sv.loc.T, "mod")
			e.store(f.heap, sv.loc, hv.T)
		}
		f.bumpAlloc()
	}
	out := f.havocVal(rt, "res")
	if e.orderMode && con.Pure && sig != nil {
		// order check: a pure callee yields the same value for the same arguments whichever iteration runs first
		if _, isT := rt.(*types.Tuple); !isT && len(args) > 0 {
			var sorts, terms []string
			okAll := true
			var ats []types.Type
			if sig.Recv() != nil {
				ats = append(ats, sig.Recv().Type())
			}
			for i := 0; i < sig.Params().Len(); i++ {
				ats = append(ats, sig.Params().At(i).Type())
			}
			for i, a := range args {
				if a.T == "" || a.Tuple != nil || i >= len(ats) {
					okAll = false
					break
				}
				sorts = append(sorts, e.S.sortOf(ats[i]))
				terms = append(terms, a.T)
			}
			if okAll {
				sym := "ufc!" + disp
				e.S.declare(sym, fmt.Sprintf("(declare-fun %s (%s) %s)", q(sym), strings.Join(sorts, " "), e.S.sortOf(rt)))
				out = Val{T: e.define("res", e.S.sortOf(rt), fmt.Sprintf("(%s %s)", q(sym), strings.Join(terms, " ")))}
				e.assumeWF("", out.T, rt)
				e.note("order check: a call to a pure function returns the same value for the same arguments in either iteration order (freshly allocated results are identified)")
			}
		}
	}
	if con.NoReturn {
		e.assert(not(f.curReach))
		return out
	}
	post := mkEnv(f.heap)
	post.old = mkEnv(oldHeap)
	if sig != nil {
		res := sig.Results()
		var vals []Val
		if res.Len() == 1 {
			vals = []Val{out}
		} else {
			vals = out.Tuple
		}
		for i := 0; i < res.Len() && i < len(vals); i++ {
			sv := specVal{v: vals[i], t: res.At(i).Type()}
			post.names[fmt.Sprintf("result%d", i)] = sv
			if res.Len() == 1 {
				post.names["result"] = sv
			}
			if n := res.At(i).Name(); n != "" && n != "_" {
				post.names[n] = sv
			}
		}
	} else if rt != nil {
		if tup, ok := rt.(*types.Tuple); ok {
			for i := 0; i < tup.Len() && i < len(out.Tuple); i++ {
				post.names[fmt.Sprintf("result%d", i)] = specVal{v: out.Tuple[i], t: tup.At(i).Type()}
			}
		} else {
			post.names["result"] = specVal{v: out, t: rt}
		}
	}
	for _, c := range con.Ensures {
		t, err := post.evalBool(c.Expr)
		if err != nil {
			if len(con.Ghosts) > 0 && strings.Contains(err.Error(), "unknown identifier") {
				continue // clause over the callee's ghost state: meaningless to callers
			}
			e.unsupp(fmt.Sprintf("ensures of %s: %v", disp, err))
			continue
		}
		if c.Trusted {
			e.note(fmt.Sprintf("trusted (unproved) postcondition of %s used at a call: %s", disp, c.Src))
		}
		e.assumeAt(f.curReach, t)
	}
	return out
}

// inline encodes the callee's body in the caller's context.
func (f *Frame) inline(callee *ssa.Function, args []Val, bindings []ssa.Value, rt types.Type) Val {
	e := f.e
	e.inlineStack = append(e.inlineStack, callee)
	defer func() { e.inlineStack = e.inlineStack[:len(e.inlineStack)-1] }()
	sub := e.newFrame(callee, f.depth+1, false)
	sub.parent = f
	sub.args = args
	for i, p := range callee.Params {
		if i < len(args) {
			sub.vals[p] = args[i]
		}
	}
	for i, fv := range callee.FreeVars {
		if i < len(bindings) {
			sub.vals[fv] = f.get(bindings[i])
		}
	}
	sub.run(f.curReach, f.heap)
	if len(sub.rets) == 0 {
		// never returns normally
		e.assert(not(f.curReach))
		return f.havocVal(rt, "noret")
	}
	var conds []string
	var heaps []*Heap
	for _, r := range sub.rets {
		conds = append(conds, r.reach)
		heaps = append(heaps, r.heap)
	}
	// paths that panicked inside the callee do not continue
	e.assumeAt(f.curReach, or(conds...))
	f.heap = e.mergeHeaps(conds, heaps)
	nres := callee.Signature.Results().Len()
	if nres == 0 {
		return Val{T: "0"}
	}
	merge := func(k int) Val {
		t := sub.rets[len(sub.rets)-1].vals[k].T
		for i := len(sub.rets) - 2; i >= 0; i-- {
			t = fmt.Sprintf("(ite %s %s %s)", conds[i], sub.rets[i].vals[k].T, t)
		}
		rtk := callee.Signature.Results().At(k).Type()
		return Val{T: e.define("inl", e.S.sortOf(rtk), t)}
	}
	if nres == 1 {
		return merge(0)
	}
	var vs []Val
	for k := 0; k < nres; k++ {
		vs = append(vs, merge(k))
	}
	return Val{Tuple: vs}
}

func (f *Frame) builtin(b *ssa.Builtin, common *ssa.CallCommon, args []Val, site ssa.Instruction, pos token.Pos) Val {
	e := f.e
	switch b.Name() {
	case "len", "cap":
		t := common.Args[0].Type()
		switch u := t.Underlying().(type) {
		case *types.Basic:
			return Val{T: "(s_len " + args[0].T + ")"}
		case *types.Slice:
			if b.Name() == "cap" {
				return Val{T: "(sl_cap " + args[0].T + ")"}
			}
			return Val{T: "(sl_len " + args[0].T + ")"}
		case *types.Map:
			return Val{T: fmt.Sprintf("(select %s %s)", e.hget(f.heap, e.S.mapLenVar()), args[0].T)}
		case *types.Array:
			return Val{T: fmt.Sprint(u.Len())}
		case *types.Pointer:
			if at, ok := u.Elem().Underlying().(*types.Array); ok {
				return Val{T: fmt.Sprint(at.Len())}
			}
		case *types.Chan:
			v := f.havocVal(tInt, "chanlen")
			e.assert("(>= " + v.T + " 0)")
			return v
		}
		return f.havocVal(tInt, "len")
	case "append":
		return f.appendCall(common, args)
	case "copy":
		// copy(dst, src): dst's backing array changes in [off, off+n)
		dst := args[0].T
		st := common.Args[0].Type().Underlying().(*types.Slice)
		ev := e.S.elemVar(st.Elem())
		srcLen := ""
		if isString(common.Args[1].Type()) {
			srcLen = "(s_len " + args[1].T + ")"
		} else {
			srcLen = "(sl_len " + args[1].T + ")"
		}
		n := f.havocVal(tInt, "copyn")
		e.assert(fmt.Sprintf("(= %s (ite (< (sl_len %s) %s) (sl_len %s) %s))", n.T, dst, srcLen, dst, srcLen))
		cur := e.hget(f.heap, ev)
		na := e.fresh("copyarr")
		e.decl(na, "(Array Int "+e.S.sortOf(st.Elem())+")")
		e.assert(fmt.Sprintf("(forall ((k Int)) (=> (or (< k (sl_off %s)) (>= k (+ (sl_off %s) %s))) (= (select %s k) (select (select %s (sl_base %s)) k))))", dst, dst, n.T, na, cur, dst))
		if isString(common.Args[1].Type()) {
			e.assert(fmt.Sprintf("(forall ((k Int)) (=> (and (<= 0 k) (< k %s)) (= (select %s (+ (sl_off %s) k)) (str_at %s k))))", n.T, na, dst, args[1].T))
		} else {
			e.assert(fmt.Sprintf("(forall ((k Int)) (=> (and (<= 0 k) (< k %s)) (= (select %s (+ (sl_off %s) k)) (select (select %s (sl_base %s)) (+ (sl_off %s) k)))))", n.T, na, dst, cur, args[1].T, args[1].T))
		}
		e.hset(f.heap, ev, fmt.Sprintf("(store %s (sl_base %s) %s)", cur, dst, na))
		return n
	case "panic":
		f.panicExit(pos, "panic")
		return Val{T: "0"}
	case "recover":
		// on the normal path recover() returns nil; a function verified as a deferred
		// handler sees an arbitrary recovered value
		if f.top && e.con != nil && e.con.Handler {
			v := f.havocVal(types.NewInterfaceType(nil, nil), "recovered")
			f.recoveredVal = v.T
			return v
		}
		return Val{T: "nil_iface"}
	case "print", "println":
		return Val{T: "0"}
	case "delete":
		mt := common.Args[0].Type().Underlying().(*types.Map)
		dv, lv := e.S.mapDomVar(mt), e.S.mapLenVar()
		m, k := args[0].T, args[1].T
		curD, curL := e.hget(f.heap, dv), e.hget(f.heap, lv)
		e.hset(f.heap, lv, fmt.Sprintf("(store %s %s (ite (select (select %s %s) %s) (- (select %s %s) 1) (select %s %s)))", curL, m, curD, m, k, curL, m, curL, m))
		e.hset(f.heap, dv, fmt.Sprintf("(store %s %s (store (select %s %s) %s false))", curD, m, curD, m, k))
		return Val{T: "0"}
	case "min", "max":
		if len(args) == 2 && isIntType(common.Args[0].Type()) {
			op := "<"
			if b.Name() == "max" {
				op = ">"
			}
			return Val{T: fmt.Sprintf("(ite (%s %s %s) %s %s)", op, args[0].T, args[1].T, args[0].T, args[1].T)}
		}
	case "ssa:wrapnilchk":
		return args[0]
	}
	sig := common.Signature()
	var rt types.Type = sig.Results()
	if sig.Results().Len() == 1 {
		rt = sig.Results().At(0).Type()
	}
	e.note("builtin " + b.Name() + " not modelled: result unconstrained")
	return f.havocVal(rt, "builtin")
}

// appendCall models append(s, elems...) where elems is a slice (or string).
// Go semantics: if len+n <= cap the backing array is shared and written in
// place; otherwise a fresh array is allocated.
func (f *Frame) appendCall(common *ssa.CallCommon, args []Val) Val {
	e := f.e
	st := common.Args[0].Type().Underlying().(*types.Slice)
	s := args[0].T
	ev := e.S.elemVar(st.Elem())
	es := e.S.sortOf(st.Elem())
	var n string
	srcIsStr := isString(common.Args[1].Type())
	if srcIsStr {
		n = "(s_len " + args[1].T + ")"
	} else {
		n = "(sl_len " + args[1].T + ")"
	}
	cur := e.hget(f.heap, ev)
	newLen := e.define("applen", "Int", fmt.Sprintf("(+ (sl_len %s) %s)", s, n))
	fits := e.define("appfits", "Bool", fmt.Sprintf("(<= %s (sl_cap %s))", newLen, s))
	fresh := f.allocRef("apparr")
	base := e.define("appbase", "Int", fmt.Sprintf("(ite %s (sl_base %s) %s)", fits, s, fresh))
	off := e.define("appoff", "Int", fmt.Sprintf("(ite %s (sl_off %s) 0)", fits, s))
	ncap := f.havocVal(tInt, "appcap")
	e.assert(fmt.Sprintf("(and (>= %s %s) (=> %s (= %s (sl_cap %s))))", ncap.T, newLen, fits, ncap.T, s))
	// append(s, x1, ..., xn) with a short literal argument list: the new backing
	// array as ground store terms (in place: the old array with the new elements
	// stored behind the old length; reallocated: a copy of the old elements with
	// them stored at len..len+n-1) - solvers handle these far better than the
	// quantified description used for the general case below
	staticN := int64(-1)
	if sl, ok := common.Args[1].(*ssa.Slice); ok && !srcIsStr && sl.Low == nil && sl.High == nil {
		if pt, ok := sl.X.Type().Underlying().(*types.Pointer); ok {
			if at, ok := pt.Elem().Underlying().(*types.Array); ok && at.Len() <= 4 {
				staticN = at.Len()
			}
		}
	}
	na := e.fresh("apparrv")
	e.decl(na, "(Array Int "+es+")")
	if staticN >= 0 {
		cp := e.fresh("appcopy")
		e.decl(cp, "(Array Int "+es+")")
		e.assert(fmt.Sprintf("(forall ((k Int)) (! (=> (and (<= 0 k) (< k (sl_len %s))) (= (select %s k) (select (select %s (sl_base %s)) (+ (sl_off %s) k)))) :pattern ((select %s k))))", s, cp, cur, s, s, cp))
		inPlace := fmt.Sprintf("(select %s (sl_base %s))", cur, s)
		realloc := cp
		for k := int64(0); k < staticN; k++ {
			x := fmt.Sprintf("(select (select %s (sl_base %s)) (+ (sl_off %s) %d))", cur, args[1].T, args[1].T, k)
			inPlace = fmt.Sprintf("(store %s (+ (sl_off %s) (sl_len %s) %d) %s)", inPlace, s, s, k, x)
			realloc = fmt.Sprintf("(store %s (+ (sl_len %s) %d) %s)", realloc, s, k, x)
		}
		e.assert(fmt.Sprintf("(= %s (ite %s %s %s))", na, fits, inPlace, realloc))
	} else {
		// old elements preserved (in place: whole old array outside the appended window; fresh: copied prefix)
		e.assert(fmt.Sprintf("(=> %s (forall ((k Int)) (=> (or (< k (+ (sl_off %s) (sl_len %s))) (>= k (+ (sl_off %s) %s))) (= (select %s k) (select (select %s (sl_base %s)) k)))))", fits, s, s, s, newLen, na, cur, s))
		e.assert(fmt.Sprintf("(=> (not %s) (forall ((k Int)) (=> (and (<= 0 k) (< k (sl_len %s))) (= (select %s k) (select (select %s (sl_base %s)) (+ (sl_off %s) k))))))", fits, s, na, cur, s, s))
		// appended elements
		if srcIsStr {
			e.assert(fmt.Sprintf("(forall ((k Int)) (=> (and (<= 0 k) (< k %s)) (= (select %s (+ %s (sl_len %s) k)) (str_at %s k))))", n, na, off, s, args[1].T))
		} else {
			e.assert(fmt.Sprintf("(forall ((k Int)) (=> (and (<= 0 k) (< k %s)) (= (select %s (+ %s (sl_len %s) k)) (select (select %s (sl_base %s)) (+ (sl_off %s) k)))))", n, na, off, s, cur, args[1].T, args[1].T))
		}
	}
	e.hset(f.heap, ev, fmt.Sprintf("(store %s %s %s)", cur, base, na))
	return Val{T: e.define("app", "Slice", fmt.Sprintf("(mk_slice %s %s %s %s)", base, off, newLen, ncap.T))}
}

// ghost hooks ---------------------------------------------------------------------

func (f *Frame) ghostAt(kind string, args []Val, res Val, after bool) {
	key := kind
	ord := f.callOrd["$"+kind+fmt.Sprint(after)]
	f.callOrd["$"+kind+fmt.Sprint(after)]++
	f.ghostHooks(fmt.Sprintf("%s#%d", key, ord), args, res, after)
}

func (f *Frame) ghostHooks(siteKey string, args []Val, res Val, after bool) {
	f.ghostHooksNamed(siteKey, args, res, after, nil)
}

func (f *Frame) ghostHooksNamed(siteKey string, args []Val, res Val, after bool, argNames []string) {
	e := f.e
	if e.con == nil {
		return
	}
	var stmts []GhostStmt
	if e.hooksFired == nil {
		e.hooksFired = map[string]bool{}
	}
	if f.top {
		stmts = e.con.AtCalls[siteKey]
		if len(stmts) > 0 {
			e.hooksFired[siteKey] = true
		}
	}
	// wildcard: callee#* applies to every call of that callee, also inside inlined helpers
	if i := strings.LastIndex(siteKey, "#"); i >= 0 {
		if ws := e.con.AtCalls[siteKey[:i]+"#*"]; len(ws) > 0 {
			e.hooksFired[siteKey[:i]+"#*"] = true
			stmts = append(append([]GhostStmt{}, stmts...), ws...)
		}
	}
	for _, gs := range stmts {
		if gs.After != after {
			continue
		}
		env := f.specEnv(f.heap, nil, nil)
		for i, a := range args {
			env.names[fmt.Sprintf("arg%d", i)] = specVal{v: a, t: f.argType(siteKey, i)}
			if i < len(argNames) {
				env.names[argNames[i]] = specVal{v: a, t: f.argType(siteKey, i)}
			}
		}
		if after {
			rts := f.curResTypes
			if res.Tuple != nil {
				for i, r := range res.Tuple {
					var t types.Type = tInt
					if rts != nil && i < rts.Len() {
						t = rts.At(i).Type()
					}
					env.names[fmt.Sprintf("res%d", i)] = specVal{v: r, t: t}
				}
			} else {
				var t types.Type = tInt
				if rts != nil && rts.Len() == 1 {
					t = rts.At(0).Type()
				}
				env.names["res"] = specVal{v: res, t: t}
			}
		}
		switch gs.Kind {
		case "assert":
			t, err := env.evalBool(gs.C.Expr)
			if err != nil {
				e.unsupp("ghost assert at " + siteKey + ": " + err.Error())
				continue
			}
			e.addObl("assert", siteKey+":"+clauseLabel(gs.C, 0), f.curReach, t, token.NoPos, gs.C.Src, clauseProps(gs.C, f.props()))
			e.assumeAt(f.curReach, t)
		case "assume":
			t, err := env.evalBool(gs.C.Expr)
			if err == nil {
				e.assumeAt(f.curReach, t)
				e.note("ghost assume at " + siteKey + ": " + gs.C.Src)
			}
		case "set":
			lv, perr := parseSpecExpr(gs.Var)
			if perr != nil {
				e.unsupp("ghost set " + gs.Var + ": " + perr.Error())
				continue
			}
			_ = ast.NewIdent
			sv, err := env.evalLoc(lv)
			if err != nil || sv.loc == nil {
				e.unsupp("ghost set " + gs.Var)
				continue
			}
			v, _, err := env.eval(gs.C.Expr)
			if err != nil {
				e.unsupp("ghost set " + gs.Var + ": " + err.Error())
				continue
			}
			e.store(f.heap, sv.loc, v.T)
		}
	}
}

// storeHooks runs `at call store#k ...` ghost statements with val / idx bound.
func (f *Frame) storeHooks(siteKey string, args []Val) {
	f.ghostHooksNamed(siteKey, args, Val{}, false, []string{"val", "idx"})
}

func (f *Frame) argType(siteKey string, i int) types.Type {
	if i < len(f.curArgTypes) {
		return f.curArgTypes[i]
	}
	return tInt
}

// loop write sets ---------------------------------------------------------------------

// loopWriteSet over-approximates the heap variables a loop may modify.
func (e *Enc) loopWriteSet(f *Frame, li *LoopInfo) []string {
	set := map[string]bool{}
	all := false
	e.mapPoints = map[string][]ssa.Value{}
	e.pointLoop, e.pointFrame = li, f
	for idx := range li.blocks {
		e.blockWrites(f.fn.Blocks[idx], f.depth, set, &all, f.top)
	}
	e.pointLoop, e.pointFrame = nil, nil
	// map variables written only through loop-invariant map operands are havoced at those maps only
	li.mapPoints = map[string][]ssa.Value{}
	if !all {
		for v, refs := range e.mapPoints {
			if !set[v] {
				li.mapPoints[v] = refs
				set[v] = true
			}
		}
	}
	if all {
		for _, v := range e.allHeapVars {
			if !strings.HasPrefix(v, "ghost!") {
				set[v] = true
			}
		}
		for v := range f.heap.m {
			if !strings.HasPrefix(v, "ghost!") {
				set[v] = true
			}
		}
	}
	// ghost variables assigned by hooks attached to call sites inside the loop
	if f.top && e.con != nil {
		for idx := range li.blocks {
			for _, ins := range f.fn.Blocks[idx].Instrs {
				sk, ok := f.siteKeys[ins]
				if !ok {
					continue
				}
				keys := []string{sk}
				if i := strings.LastIndex(sk, "#"); i >= 0 {
					keys = append(keys, sk[:i]+"#*")
				}
				for _, k := range keys {
					for _, h := range e.con.AtCalls[k] {
						if h.Kind == "set" {
							set["ghost!"+h.Var] = true
						}
					}
				}
			}
		}
	}
	var out []string
	for v := range set {
		if _, ok := e.S.heapSort[v]; ok {
			out = append(out, v)
		}
	}
	sort.Strings(out)
	return out
}

func (e *Enc) blockWrites(b *ssa.BasicBlock, depth int, set map[string]bool, all *bool, top bool) {
	for _, ins := range b.Instrs {
		switch x := ins.(type) {
		case *ssa.Store:
			e.addrWrites(x.Addr, set, all)
		case *ssa.MapUpdate:
			mt := x.Map.Type().Underlying().(*types.Map)
			if e.pointLoop != nil && b.Parent() == e.pointFrame.fn && (e.pointFrame.loopInvariantValue(x.Map, e.pointLoop) || loadOfUnwrittenGlobal(x.Map, e.pointLoop, e.pointFrame.fn)) {
				for _, v := range []string{e.S.mapVar(mt), e.S.mapDomVar(mt), e.S.mapLenVar()} {
					e.mapPoints[v] = append(e.mapPoints[v], x.Map)
				}
				continue
			}
			set[e.S.mapVar(mt)] = true
			set[e.S.mapDomVar(mt)] = true
			set[e.S.mapLenVar()] = true
		case *ssa.Alloc:
			set["$alloc"] = true
			et := x.Type().(*types.Pointer).Elem()
			for _, v := range e.heapVarsOfLoc(&Loc{Kind: locCell, T: et, Ptr: "0"}) {
				set[v] = true
			}
		case *ssa.MakeMap:
			mt := x.Type().Underlying().(*types.Map)
			set["$alloc"], set[e.S.mapDomVar(mt)], set[e.S.mapLenVar()] = true, true, true
		case *ssa.MakeSlice:
			set["$alloc"] = true
			set[e.S.elemVar(x.Type().Underlying().(*types.Slice).Elem())] = true
		case *ssa.MakeClosure, *ssa.MakeChan, *ssa.MakeInterface:
			set["$alloc"] = true
		case *ssa.Convert:
			set["$alloc"] = true
			if sl, ok := x.Type().Underlying().(*types.Slice); ok {
				set[e.S.elemVar(sl.Elem())] = true
			}
		case *ssa.Range, *ssa.Next:
			set["$alloc"] = true
			set[e.S.iterVar()] = true
		case *ssa.Call:
			e.callWrites(&x.Call, depth, set, all)
		case *ssa.Defer:
			e.callWrites(&x.Call, depth, set, all)
		case *ssa.Go:
		}
	}
}

func (e *Enc) addrWrites(a ssa.Value, set map[string]bool, all *bool) {
	switch x := a.(type) {
	case *ssa.FieldAddr:
		// walk to the root
		root := x
		for {
			if p, ok := root.X.(*ssa.FieldAddr); ok {
				root = p
				continue
			}
			break
		}
		switch r := root.X.(type) {
		case *ssa.IndexAddr:
			e.addrWrites(r, set, all)
		case *ssa.Global:
			e.addrWrites(r, set, all)
		default:
			pt := root.X.Type().Underlying().(*types.Pointer)
			set[e.S.fieldVar(pt.Elem(), root.Field)] = true
		}
	case *ssa.IndexAddr:
		switch u := x.X.Type().Underlying().(type) {
		case *types.Slice:
			set[e.S.elemVar(u.Elem())] = true
		case *types.Pointer:
			at := u.Elem().Underlying().(*types.Array)
			if inner, ok := x.X.(*ssa.FieldAddr); ok {
				e.addrWrites(inner, set, all)
			} else if g, ok := x.X.(*ssa.Global); ok {
				e.addrWrites(g, set, all)
			} else {
				set[e.S.elemVar(at.Elem())] = true
			}
		}
	case *ssa.Global:
		var pkgp string
		if x.Pkg != nil {
			pkgp = x.Pkg.Pkg.Path()
		}
		set[e.S.globalVar(pkgp, x.Name(), x.Type().(*types.Pointer).Elem())] = true
	default:
		pt, ok := a.Type().Underlying().(*types.Pointer)
		if !ok {
			*all = true
			return
		}
		for _, v := range e.heapVarsOfLoc(&Loc{Kind: locCell, T: pt.Elem(), Ptr: "0"}) {
			set[v] = true
		}
	}
}

func (e *Enc) callWrites(common *ssa.CallCommon, depth int, set map[string]bool, all *bool) {
	set["$alloc"] = true
	if common.IsInvoke() {
		key := "iface:" + types.TypeString(common.Value.Type(), nil) + "." + common.Method.Name()
		if con := e.P.specs.Contracts[key]; con != nil {
			e.contractWrites(con, nil, common.Signature(), set, all)
		}
		return
	}
	var callee *ssa.Function
	switch c := common.Value.(type) {
	case *ssa.Builtin:
		switch c.Name() {
		case "append", "copy":
			if st, ok := common.Args[0].Type().Underlying().(*types.Slice); ok {
				set[e.S.elemVar(st.Elem())] = true
			}
		case "delete":
			mt := common.Args[0].Type().Underlying().(*types.Map)
			set[e.S.mapDomVar(mt)], set[e.S.mapLenVar()] = true, true
		}
		return
	case *ssa.Function:
		callee = c
	case *ssa.MakeClosure:
		callee = c.Fn.(*ssa.Function)
	default:
		if nt, ok := types.Unalias(common.Value.Type()).(*types.Named); ok {
			if con := e.P.specs.Contracts["functype:"+typeKey(nt)]; con != nil {
				e.contractWrites(con, nil, common.Signature(), set, all)
				return
			}
		}
		*all = true
		return
	}
	kind, con := e.decideCall(callee, depth)
	switch kind {
	case ckContract:
		e.contractWrites(con, callee, callee.Signature, set, all)
	case ckInline:
		e.inlineStack = append(e.inlineStack, callee)
		for _, b := range callee.Blocks {
			e.blockWrites(b, depth+1, set, all, false)
		}
		e.inlineStack = e.inlineStack[:len(e.inlineStack)-1]
	case ckHavocAll:
		*all = true
	}
}

// contractWrites resolves a contract's modifies clauses to heap variables by type.
func (e *Enc) contractWrites(con *Contract, callee *ssa.Function, sig *types.Signature, set map[string]bool, all *bool) {
	if con.ModAll || (len(con.Modifies) == 0 && !con.Pure && !con.Extern) {
		*all = true
		return
	}
	if len(con.Modifies) == 0 {
		return
	}
	tpkg := e.fn.Pkg.Pkg
	if con.PkgPath != "" {
		if pp := e.P.pkgByPath(con.PkgPath); pp != nil {
			tpkg = pp
		}
	}
	env := &SpecEnv{e: e, heap: &Heap{m: map[string]string{}}, pkg: tpkg, names: map[string]specVal{}, noFacts: true}
	if callee != nil {
		for _, p := range callee.Params {
			env.names[p.Name()] = specVal{v: Val{T: "0"}, t: p.Type()}
		}
	} else if sig != nil {
		for i, n := range contractParamNames(con, sig, false) {
			env.names[n] = specVal{v: Val{T: "0"}, t: sig.Params().At(i).Type()}
		}
		env.names["recv"] = specVal{v: Val{T: "0"}, t: tInt}
	}
	for _, m := range con.Modifies {
		sv, err := env.evalLoc(m.Expr)
		if err != nil || sv.loc == nil {
			*all = true
			continue
		}
		for _, v := range e.heapVarsOfLoc(sv.loc) {
			set[v] = true
		}
	}
}

// mayPanic: can a call to callee end in a panic that propagates to the caller?
// Repo functions may (errorf-style errors are panics) unless their contract
// says nopanic or they are trusted/extern primitives; externs are assumed not to.
func mayPanic(p *Prog, callee *ssa.Function, con *Contract) bool {
	if !p.inRepo(callee) {
		return false
	}
	if con != nil && (!con.MayPanic || con.Trusted || con.Extern) {
		return false
	}
	return true
}

// panicExitCheck: if a panic propagates from this point, the function's
// deferred calls run (in reverse order); afterwards every `panicensures`
// clause of the contract must hold. Deferred calls are applied through their
// contracts; a recover handler contributes its `onpanic` guarantees.
func (f *Frame) panicExitCheck(siteKey string, pos token.Pos) {
	e := f.e
	if !f.top || e.con == nil || len(e.con.PanicEnsures) == 0 || e.dry {
		return
	}
	saved := f.heap
	f.heap = saved.clone()
	f.inPanicSim = true
	for i := len(f.defers) - 1; i >= 0; i-- {
		d := f.defers[i]
		var callee *ssa.Function
		switch c := d.Call.Value.(type) {
		case *ssa.Function:
			callee = c
		case *ssa.MakeClosure:
			callee = c.Fn.(*ssa.Function)
		}
		if callee == nil {
			continue
		}
		con := e.P.contractFor(callee)
		var args []Val
		for _, a := range d.Call.Args {
			args = append(args, f.get(a))
		}
		if con != nil && con.Handler {
			// the handler runs with a non-nil recovered value: assume its onpanic guarantees
			pkg := callee.Pkg.Pkg
			mk := func(h *Heap) *SpecEnv {
				env := &SpecEnv{e: e, f: f, heap: h, pkg: pkg, names: map[string]specVal{}}
				for k, prm := range callee.Params {
					if k < len(args) {
						env.names[prm.Name()] = specVal{v: args[k], t: prm.Type()}
					}
				}
				return env
			}
			old := f.heap.clone()
			f.havocAll()
			post := mk(f.heap)
			post.old = mk(old)
			for _, c := range con.OnPanic {
				if t, err := post.evalBool(c.Expr); err == nil {
					e.assumeAt(f.curReach, t)
				}
			}
			continue
		}
		if con != nil {
			rt := types.Type(callee.Signature.Results())
			f.applyContract(con, callee, args, rt, siteKey+"!defer", pos)
			continue
		}
		f.havocAll()
	}
	env := f.specEnv(f.heap, nil, nil)
	for i, c := range e.con.PanicEnsures {
		t, err := env.evalBool(c.Expr)
		if err != nil {
			e.unsupp("panicensures: " + err.Error())
			continue
		}
		e.addObl("panic.post", siteKey+":"+clauseLabel(c, i), f.curReach, t, pos, c.Src+" (if this call panics, after the deferred calls ran)", clauseProps(c, f.props()))
	}
	f.heap = saved
	f.inPanicSim = false
}

// loadOfUnwrittenGlobal: v is *G for a package-level variable G that no
// instruction of the loop stores to (so the loaded reference is the same in
// every iteration).
func loadOfUnwrittenGlobal(v ssa.Value, li *LoopInfo, fn *ssa.Function) bool {
	u, ok := v.(*ssa.UnOp)
	if !ok || u.Op != token.MUL {
		return false
	}
	g, ok := u.X.(*ssa.Global)
	if !ok {
		return false
	}
	for idx := range li.blocks {
		for _, ins := range fn.Blocks[idx].Instrs {
			switch x := ins.(type) {
			case *ssa.Store:
				if x.Addr == ssa.Value(g) {
					return false
				}
			case *ssa.Call:
				if _, isB := x.Call.Value.(*ssa.Builtin); !isB {
					return false // a callee might assign the variable
				}
			}
		}
	}
	return true
}

// functionalResult: the result of a call without contract. Normally an
// unconstrained value; while checking order independence it is a function of
// the argument values, so that the same call on the same values gives the same
// result in both iteration orders.
func (f *Frame) functionalResult(sym string, args []Val, common *ssa.CallCommon, rt types.Type, hint string) Val {
	e := f.e
	if !e.orderMode {
		return f.havocVal(rt, hint)
	}
	if _, isT := rt.(*types.Tuple); isT {
		return f.havocVal(rt, hint)
	}
	var sorts, terms []string
	var argTypes []types.Type
	if common.IsInvoke() {
		argTypes = append(argTypes, common.Value.Type())
	}
	for _, a := range common.Args {
		argTypes = append(argTypes, a.Type())
	}
	for i, a := range args {
		if a.T == "" || a.Tuple != nil || i >= len(argTypes) {
			return f.havocVal(rt, hint)
		}
		sorts = append(sorts, e.S.sortOf(argTypes[i]))
		terms = append(terms, a.T)
	}
	if len(terms) == 0 {
		return f.havocVal(rt, hint)
	}
	name := q(sym)
	e.S.declare(sym, fmt.Sprintf("(declare-fun %s (%s) %s)", name, strings.Join(sorts, " "), e.S.sortOf(rt)))
	v := Val{T: e.define(hint, e.S.sortOf(rt), fmt.Sprintf("(%s %s)", name, strings.Join(terms, " ")))}
	e.assumeWF("", v.T, rt)
	return v
}

// passedToCurrentCall: a pointer into the local cell al is among the arguments
// of the call being encoded (in f or in one of the frames it is inlined into).
func passedToCurrentCall(f *Frame, al *ssa.Alloc) bool {
	for fr := f; fr != nil; fr = fr.parent {
		for _, a := range fr.curCallArgs {
			v := a
			for v != nil {
				switch x := v.(type) {
				case *ssa.Alloc:
					if x == al {
						return true
					}
					v = nil
				case *ssa.FieldAddr:
					v = x.X
				case *ssa.IndexAddr:
					v = x.X
				default:
					v = nil
				}
			}
		}
	}
	return false
}
