package main

import (
	"sync"
	"fmt"
	"go/token"
	"go/types"
	"os"
	"path/filepath"
	"sort"
	"strings"

	"golang.org/x/tools/go/packages"
	"golang.org/x/tools/go/ssa"
	"golang.org/x/tools/go/ssa/ssautil"
)

const repoModule = "github.com/robfig/soy"

type Prog struct {
	exprReachOnce sync.Once
	exprReachKeys map[string]bool
	exprReachDisp map[string]bool
	fset   *token.FileSet
	prog   *ssa.Program
	pkgs   []*packages.Package
	spkgs  []*ssa.Package
	specs  *Specs
	byPath map[string]*types.Package
	repo   string
	funcs  map[string]*ssa.Function // contract key -> function
	specErrors map[string][]string // property -> names in the contract files that match nothing in the program
}

func loadProg(repo, specDir string) (*Prog, error) {
	cfg := &packages.Config{Mode: packages.LoadAllSyntax, Dir: repo, BuildFlags: []string{"-tags=verif"}, Env: append(os.Environ(), "GOFLAGS=-mod=mod", "GOPROXY=off", "GOSUMDB=off", "GOTOOLCHAIN=local")}
	pkgs, err := packages.Load(cfg, "./...")
	if err != nil {
		return nil, err
	}
	nerr := 0
	packages.Visit(pkgs, nil, func(p *packages.Package) {
		for _, e := range p.Errors {
			if strings.HasPrefix(p.PkgPath, repoModule) {
				fmt.Fprintln(os.Stderr, "load error:", e)
				nerr++
			}
		}
	})
	if nerr > 0 {
		return nil, fmt.Errorf("%d package errors", nerr)
	}
	prog, spkgs := ssautil.AllPackages(pkgs, ssa.GlobalDebug|ssa.InstantiateGenerics)
	prog.Build()
	p := &Prog{fset: prog.Fset, prog: prog, pkgs: pkgs, spkgs: spkgs, specs: newSpecs(), byPath: map[string]*types.Package{}, repo: repo, funcs: map[string]*ssa.Function{}}
	for _, sp := range prog.AllPackages() {
		p.byPath[sp.Pkg.Path()] = sp.Pkg
	}
	// contract files: <pkg dir>/verif_contracts.go in the repo, *.spec in specDir
	for _, pk := range pkgs {
		if len(pk.GoFiles) == 0 {
			continue
		}
		dir := filepath.Dir(pk.GoFiles[0])
		cf := filepath.Join(dir, "verif_contracts.go")
		if _, err := os.Stat(cf); err == nil {
			if err := p.specs.loadSpecFile(cf, pk.PkgPath); err != nil {
				return nil, err
			}
		}
	}
	if specDir != "" {
		files, _ := filepath.Glob(filepath.Join(specDir, "*.spec"))
		sort.Strings(files)
		for _, sf := range files {
			if err := p.specs.loadSpecFile(sf, ""); err != nil {
				return nil, err
			}
		}
	}
	if err := p.specs.resolveLikes(); err != nil {
		return nil, err
	}
	// index functions by contract key
	for fn := range ssautil.AllFunctions(prog) {
		if k := p.contractKey(fn); k != "" {
			p.funcs[k] = fn
		}
	}
	p.validateSpecNames()
	return p, nil
}

func (p *Prog) inRepo(fn *ssa.Function) bool {
	pk := fn.Pkg
	if pk == nil && fn.Parent() != nil {
		pk = fn.Parent().Pkg
	}
	if pk == nil {
		// wrappers & instantiations: decide by the origin
		if o := fn.Origin(); o != nil && o.Pkg != nil {
			pk = o.Pkg
		} else {
			return false
		}
	}
	return strings.HasPrefix(pk.Pkg.Path(), repoModule)
}

// contractKey: "<pkgpath>::<RelString>" for repo functions, full String() for others.
func (p *Prog) contractKey(fn *ssa.Function) string {
	pk := fn.Pkg
	if pk == nil && fn.Parent() != nil {
		pk = fn.Parent().Pkg
	}
	if pk == nil {
		return fn.String()
	}
	if strings.HasPrefix(pk.Pkg.Path(), repoModule) {
		return pk.Pkg.Path() + "::" + fn.RelString(pk.Pkg)
	}
	return fn.String()
}

func (p *Prog) contractFor(fn *ssa.Function) *Contract {
	return p.specs.Contracts[p.contractKey(fn)]
}

func (p *Prog) fnDisplay(fn *ssa.Function) string {
	pk := fn.Pkg
	if pk == nil && fn.Parent() != nil {
		pk = fn.Parent().Pkg
	}
	if pk == nil {
		return fn.String()
	}
	return pk.Pkg.Name() + "." + fn.RelString(pk.Pkg)
}

func (p *Prog) pkgByPath(path string) *types.Package { return p.byPath[path] }

// lookupQualified resolves pkgname.Name as seen from package from (by import name).
func (p *Prog) lookupQualified(from *types.Package, pkgName, name string) types.Object {
	for _, imp := range from.Imports() {
		if imp.Name() == pkgName {
			return imp.Scope().Lookup(name)
		}
	}
	// fall back: any loaded package with that name (prefer repo packages)
	var cand types.Object
	for path, tp := range p.byPath {
		if tp.Name() == pkgName {
			if o := tp.Scope().Lookup(name); o != nil {
				if strings.HasPrefix(path, repoModule) {
					return o
				}
				cand = o
			}
		}
	}
	return cand
}

func (p *Prog) lookupQualifiedType(src string) types.Type {
	ptr := 0
	for strings.HasPrefix(src, "*") {
		ptr++
		src = src[1:]
	}
	i := strings.LastIndex(src, ".")
	if i < 0 {
		return nil
	}
	pkgName, name := src[:i], src[i+1:]
	var obj types.Object
	if tp, ok := p.byPath[pkgName]; ok {
		obj = tp.Scope().Lookup(name)
	} else {
		for path, tp := range p.byPath {
			if tp.Name() == pkgName {
				if o := tp.Scope().Lookup(name); o != nil {
					obj = o
					if strings.HasPrefix(path, repoModule) {
						break
					}
				}
			}
		}
	}
	tn, ok := obj.(*types.TypeName)
	if !ok {
		return nil
	}
	t := tn.Type()
	for ; ptr > 0; ptr-- {
		t = types.NewPointer(t)
	}
	return t
}

// sourceAt gives a stable structural description of an SSA value for naming.
func (p *Prog) sourceAt(pos token.Pos, v ssa.Value) string {
	return describe(v, 0)
}

func describe(v ssa.Value, depth int) string {
	if depth > 6 {
		return "_"
	}
	switch x := v.(type) {
	case *ssa.Parameter:
		return x.Name()
	case *ssa.FreeVar:
		return x.Name()
	case *ssa.Const:
		if x.Value == nil {
			return "nil"
		}
		s := x.Value.ExactString()
		if len(s) > 20 {
			s = s[:20]
		}
		return s
	case *ssa.Global:
		return x.Name()
	case *ssa.FieldAddr:
		pt := x.X.Type().Underlying().(*types.Pointer)
		return describe(x.X, depth+1) + "." + fieldName(pt.Elem(), x.Field)
	case *ssa.Field:
		return describe(x.X, depth+1) + "." + fieldName(x.X.Type(), x.Field)
	case *ssa.UnOp:
		if x.Op == token.MUL {
			return describe(x.X, depth+1)
		}
		return x.Op.String() + describe(x.X, depth+1)
	case *ssa.Phi:
		if x.Comment != "" {
			return x.Comment
		}
	case *ssa.BinOp:
		return describe(x.X, depth+1) + x.Op.String() + describe(x.Y, depth+1)
	case *ssa.Convert:
		return describe(x.X, depth+1)
	case *ssa.ChangeType:
		return describe(x.X, depth+1)
	case *ssa.Call:
		if b, ok := x.Call.Value.(*ssa.Builtin); ok && len(x.Call.Args) > 0 {
			return b.Name() + "(" + describe(x.Call.Args[0], depth+1) + ")"
		}
		if fn, ok := x.Call.Value.(*ssa.Function); ok {
			return fn.Name() + "()"
		}
		if x.Call.IsInvoke() {
			return describe(x.Call.Value, depth+1) + "." + x.Call.Method.Name() + "()"
		}
	case *ssa.IndexAddr:
		return describe(x.X, depth+1) + "[" + describe(x.Index, depth+1) + "]"
	case *ssa.Index:
		return describe(x.X, depth+1) + "[" + describe(x.Index, depth+1) + "]"
	case *ssa.Lookup:
		return describe(x.X, depth+1) + "[" + describe(x.Index, depth+1) + "]"
	case *ssa.Slice:
		s := describe(x.X, depth+1) + "["
		if x.Low != nil {
			s += describe(x.Low, depth+1)
		}
		s += ":"
		if x.High != nil {
			s += describe(x.High, depth+1)
		}
		return s + "]"
	case *ssa.Extract:
		return describe(x.Tuple, depth+1) + fmt.Sprintf("#%d", x.Index)
	case *ssa.TypeAssert:
		return describe(x.X, depth+1) + ".(T)"
	case *ssa.Alloc:
		if x.Comment != "" {
			return x.Comment
		}
	case *ssa.MakeInterface:
		return describe(x.X, depth+1)
	case *ssa.Next:
		return "next"
	}
	return "_"
}

// validateSpecNames: interface contracts and taint fields are matched by name
// at call sites / loads; a name that matches nothing would silently never
// apply. Such names are collected and reported by every check of the
// properties they belong to.
func (p *Prog) validateSpecNames() {
	p.specErrors = map[string][]string{}
	add := func(props []string, msg string) {
		if len(props) == 0 {
			props = []string{"*"}
		}
		for _, pr := range props {
			p.specErrors[pr] = append(p.specErrors[pr], msg)
		}
	}
	for k, c := range p.specs.Contracts {
		if !strings.HasPrefix(k, "iface:") {
			continue
		}
		name := strings.TrimPrefix(k, "iface:")
		i := strings.LastIndex(name, ".")
		if i < 0 {
			add(c.Props, "iface contract "+name+": malformed")
			continue
		}
		t := p.lookupQualifiedType(name[:i])
		ok := false
		if t != nil {
			if it, isI := t.Underlying().(*types.Interface); isI {
				for m := 0; m < it.NumMethods(); m++ {
					if it.Method(m).Name() == name[i+1:] {
						ok = true
					}
				}
			}
		}
		if !ok {
			add(c.Props, "iface contract "+name+": no such interface method in the program")
		}
	}
	for _, t := range p.specs.Taints {
		for f := range t.Fields {
			i := strings.LastIndex(f, ".")
			ok := false
			if i > 0 {
				if ty := p.lookupQualifiedType(f[:i]); ty != nil {
					if st, isS := ty.Underlying().(*types.Struct); isS {
						for j := 0; j < st.NumFields(); j++ {
							if st.Field(j).Name() == f[i+1:] && isString(st.Field(j).Type()) {
								ok = true
							}
						}
					}
				}
			}
			if !ok {
				add(nil, "taint "+t.Fn+": field "+f+" is not a string field of a struct type of the program")
			}
		}
	}
}
