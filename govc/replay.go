package main

// Replay of solver counterexamples on the real code: a Go test generated from
// a per-function template is injected with `go test -overlay` (nothing is
// written under /repo).

import (
	"bytes"
	"context"
	"encoding/json"
	"fmt"
	"os"
	"os/exec"
	"path/filepath"
	"strconv"
	"strings"
	"text/template"
	"time"
)

// modelFetcher evaluates SMT terms in ONE model of the failing query: the
// template is executed twice, first to collect the terms it needs, then with
// the values of a single solver run (so all values are mutually consistent).
type modelFetcher struct {
	query  string
	bounds string
	dir    string
	want   []string
	seen   map[string]bool
	vals   map[string]string
	solved bool
	note   string
	heapSorts map[string]string
}

const maxReplayStr = 96

func (m *modelFetcher) need(term string) {
	if !m.seen[term] {
		m.seen[term] = true
		m.want = append(m.want, term)
	}
}

// solve runs the solvers once with (get-value (all wanted terms)).
func (m *modelFetcher) solve() error {
	if len(m.want) == 0 {
		m.solved = true
		return nil
	}
	decl := ""
	for hv, so := range m.heapSorts {
		sym := q("H0!" + hv)
		if strings.Contains(strings.Join(m.want, " "), sym) && !strings.Contains(m.query, "(declare-const "+sym+" ") {
			decl += fmt.Sprintf("(declare-const %s %s)\n", sym, so)
		}
	}
	gv := decl + "(check-sat)\n(get-value (" + strings.Join(m.want, " ") + "))\n"
	type attempt struct {
		text   string
		solver []string
		label  string
	}
	var atts []attempt
	if m.bounds != "" {
		atts = append(atts, attempt{m.query + m.bounds, []string{"z3-new", "-T:10"}, "bounded inputs, z3-new"}, attempt{m.query + m.bounds, []string{"z3", "-T:10"}, "bounded inputs, z3"})
	}
	atts = append(atts, attempt{m.query, []string{"z3-new", "-T:20"}, "unbounded, z3-new"}, attempt{m.query, []string{"z3", "-T:20"}, "unbounded, z3"})
	for i, a := range atts {
		file := filepath.Join(m.dir, fmt.Sprintf("model%d.smt2", i))
		os.WriteFile(file, []byte(a.text+gv), 0o644)
		ctx, cancel := context.WithTimeout(context.Background(), 40*time.Second)
		out, _ := exec.CommandContext(ctx, a.solver[0], append(a.solver[1:], file)...).CombinedOutput()
		cancel()
		lines := strings.SplitN(string(out), "\n", 2)
		if strings.TrimSpace(lines[0]) != "sat" || len(lines) < 2 {
			continue
		}
		vals, err := parseGetValue(lines[1], len(m.want))
		if err != nil {
			m.note = err.Error()
			continue
		}
		m.vals = map[string]string{}
		for k, t := range m.want {
			m.vals[t] = vals[k]
		}
		m.solved = true
		m.note = "model obtained with: " + a.label
		return nil
	}
	return fmt.Errorf("no solver produced a model for replay (%s)", m.note)
}

// parseGetValue parses ((t1 v1) (t2 v2) ...) returning the values in order.
func parseGetValue(s string, n int) ([]string, error) {
	s = strings.TrimSpace(s)
	if !strings.HasPrefix(s, "(") {
		return nil, fmt.Errorf("bad get-value output")
	}
	s = s[1:]
	var vals []string
	for len(vals) < n {
		s = strings.TrimLeft(s, " \n\t")
		if !strings.HasPrefix(s, "(") {
			return nil, fmt.Errorf("bad get-value pair at %q", firstChars(s, 40))
		}
		s = s[1:]
		i := matchTerm(s)
		if i < 0 {
			return nil, fmt.Errorf("bad term")
		}
		rest := strings.TrimLeft(s[i:], " \n\t")
		j := matchTerm(rest)
		if j < 0 {
			return nil, fmt.Errorf("bad value")
		}
		vals = append(vals, strings.TrimSpace(rest[:j]))
		s = strings.TrimLeft(rest[j:], " \n\t")
		if !strings.HasPrefix(s, ")") {
			return nil, fmt.Errorf("unterminated pair")
		}
		s = s[1:]
	}
	return vals, nil
}

func firstChars(s string, n int) string {
	if len(s) > n {
		return s[:n]
	}
	return s
}

// matchTerm returns the index just past the first s-expression / atom in s.
func matchTerm(s string) int {
	depth := 0
	inBar := false
	for i := 0; i < len(s); i++ {
		c := s[i]
		if inBar {
			if c == '|' {
				inBar = false
				if depth == 0 {
					return i + 1
				}
			}
			continue
		}
		switch c {
		case '|':
			inBar = true
		case '(':
			depth++
		case ')':
			if depth == 0 {
				return i
			}
			depth--
			if depth == 0 {
				return i + 1
			}
		case ' ', '\n', '\t':
			if depth == 0 && i > 0 {
				return i
			}
		}
	}
	if depth == 0 && !inBar {
		return len(s)
	}
	return -1
}

func parseSMTInt(v string) (int64, error) {
	v = strings.TrimSpace(v)
	v = strings.ReplaceAll(v, "(- ", "-")
	v = strings.ReplaceAll(v, ")", "")
	v = strings.ReplaceAll(v, " ", "")
	return strconv.ParseInt(v, 10, 64)
}

// absent: the term mentions an entry-heap constant the query never constrains
// (the function does not depend on that field): any value is consistent.
func (m *modelFetcher) absent(term string) bool {
	for _, part := range strings.Split(term, "|") {
		if strings.HasPrefix(part, "H0!") {
			sym := "|" + part + "|"
			if strings.Contains(m.query, "(declare-const "+sym+" ") {
				continue
			}
			if _, ok := m.heapSorts[strings.TrimPrefix(part, "H0!")]; ok {
				continue
			}
			return true
		}
	}
	return false
}

func (m *modelFetcher) value(term string) (string, error) {
	if m.absent(term) {
		if strings.Contains(term, "!doubleDelim") {
			return "false", nil
		}
		return "0", nil
	}
	if !m.solved {
		m.need(term)
		return "0", nil
	}
	v, ok := m.vals[term]
	if !ok {
		return "", fmt.Errorf("term %s not in model", term)
	}
	return v, nil
}

func (m *modelFetcher) intVal(term string) (int64, error) {
	v, err := m.value(term)
	if err != nil {
		return 0, err
	}
	return parseSMTInt(v)
}

// strVal extracts a Go string from a Str-sorted term (length capped).
func (m *modelFetcher) strVal(term string) (string, error) {
	n, err := m.intVal("(s_len " + term + ")")
	if err != nil {
		return "", err
	}
	var buf []byte
	for i := 0; i < maxReplayStr; i++ {
		b, err := m.intVal(fmt.Sprintf("(str_at %s %d)", term, i))
		if err != nil {
			return "", err
		}
		if int64(i) < n {
			buf = append(buf, byte(b))
		}
	}
	if !m.solved {
		return "", nil
	}
	if n < 0 || n > maxReplayStr {
		return "", fmt.Errorf("model string length %d outside the replayable range (<= %d)", n, maxReplayStr)
	}
	return string(buf), nil
}

func fieldTerm(typ, field, ptr string) string {
	return fmt.Sprintf("(select %s %s)", q("H0!F!"+typ+"!"+field), ptr)
}

// replayObligation tries to reproduce a sat obligation on the real code.
func replayObligation(p *Prog, prop string, o *Obligation) (string, bool) {
	path := filepath.Join(outDir, "replay", prop+"-"+safeName(o.Name)+".txt")
	var report strings.Builder
	fmt.Fprintf(&report, "property: %s\nfailed obligation: %s\nkind: %s\nclause: %s\nposition: %s\nsolver: %s result: %s (%.2fs)\n\n", prop, o.Name, o.Kind, o.Src, o.Pos, o.Solver, o.Result, o.TimeS)
	reproduced := false
	tplPath := filepath.Join(verifDir, "replaytpl", safeName(o.Fn)+".tmpl")
	tplText, err := os.ReadFile(tplPath)
	if skipReplay {
		report.WriteString("replay: skipped (-noreplay)\n")
	} else if err != nil {
		report.WriteString("replay: no replay template for " + o.Fn + "; the obligation itself is the violation report\n")
	} else {
		tmp, _ := os.MkdirTemp("", "govc-replay")
		if os.Getenv("GOVC_KEEP") == "" {
			defer os.RemoveAll(tmp)
		} else {
			fmt.Fprintln(os.Stderr, "replay dir:", tmp)
		}
		mf := &modelFetcher{query: o.Query, bounds: o.Bounds, dir: tmp, seen: map[string]bool{}, heapSorts: o.HeapSorts}
		var ferr error
		funcs := template.FuncMap{
			"int": func(term string) string {
				v, err := mf.intVal(term)
				if err != nil {
					ferr = err
				}
				return strconv.FormatInt(v, 10)
			},
			"bool": func(term string) string {
				v, err := mf.value(term)
				if err != nil {
					ferr = err
				}
				if !mf.solved {
					return "false"
				}
				return strings.TrimSpace(v)
			},
			"str": func(term string) string {
				v, err := mf.strVal(term)
				if err != nil {
					ferr = err
				}
				return strconv.Quote(v)
			},
			"float": func(term string) string {
				v, err := mf.value("(fp.to_real " + term + ")")
				nan, _ := mf.value("(fp.isNaN " + term + ")")
				inf, _ := mf.value("(fp.isInfinite " + term + ")")
				neg, _ := mf.value("(fp.isNegative " + term + ")")
				if err != nil {
					ferr = err
				}
				if !mf.solved {
					return "0.0"
				}
				if strings.TrimSpace(nan) == "true" {
					return "math.NaN()"
				}
				if strings.TrimSpace(inf) == "true" {
					if strings.TrimSpace(neg) == "true" {
						return "math.Inf(-1)"
					}
					return "math.Inf(1)"
				}
				return smtRealToGo(v)
			},
			// datavalue: a Go expression (package data) for the data.Value the model assigns to an interface term
			"datavalue": func(term string) string {
				tagS, err := mf.value("(i_tag " + term + ")")
				if err != nil {
					ferr = err
				}
				if !mf.solved {
					// pass 1: register every term a value of any kind may need
					pay := "(i_val " + term + ")"
					mf.intVal(pay)
					if strings.Contains(o.Query, "(declare-fun unbox!Bool ") {
						mf.value("(|unbox!Bool| " + pay + ")")
					}
					if strings.Contains(o.Query, "(declare-fun unbox!F64 ") {
						ft := "(|unbox!F64| " + pay + ")"
						mf.value("(fp.to_real " + ft + ")")
						mf.value("(fp.isNaN " + ft + ")")
						mf.value("(fp.isInfinite " + ft + ")")
						mf.value("(fp.isNegative " + ft + ")")
					}
					if strings.Contains(o.Query, "(declare-fun unbox!Str ") {
						mf.strVal("(|unbox!Str| " + pay + ")")
					}
					return "nil"
				}
				tag, _ := parseSMTInt(strings.TrimSpace(tagS))
				name := ""
				for k, v := range o.Tags {
					if int64(v) == tag {
						name = k
					}
				}
				pay := "(i_val " + term + ")"
				switch {
				case strings.HasSuffix(name, "data.Int"):
					v, _ := mf.intVal(pay)
					return fmt.Sprintf("Int(%d)", v)
				case strings.HasSuffix(name, "data.Bool"):
					v, _ := mf.value("(|unbox!Bool| " + pay + ")")
					return "Bool(" + strings.TrimSpace(v) + ")"
				case strings.HasSuffix(name, "data.Float"):
					ft := "(|unbox!F64| " + pay + ")"
					v, _ := mf.value("(fp.to_real " + ft + ")")
					nan, _ := mf.value("(fp.isNaN " + ft + ")")
					inf, _ := mf.value("(fp.isInfinite " + ft + ")")
					neg, _ := mf.value("(fp.isNegative " + ft + ")")
					if strings.TrimSpace(nan) == "true" {
						return "Float(math.NaN())"
					}
					if strings.TrimSpace(inf) == "true" {
						if strings.TrimSpace(neg) == "true" {
							return "Float(math.Inf(-1))"
						}
						return "Float(math.Inf(1))"
					}
					return "Float(" + smtRealToGo(v) + ")"
				case strings.HasSuffix(name, "data.String"):
					v, _ := mf.strVal("(|unbox!Str| " + pay + ")")
					return "String(" + strconv.Quote(v) + ")"
				case strings.HasSuffix(name, "data.Null"):
					return "Null{}"
				case strings.HasSuffix(name, "data.Undefined"):
					return "Undefined{}"
				case strings.HasSuffix(name, "data.List"):
					return "List{}"
				case strings.HasSuffix(name, "data.Map"):
					return "Map{}"
				}
				return "nil"
			},
			"field":      fieldTerm,
			"obligation": func() string { return o.Name },
			"kind":       func() string { return o.Kind },
		}
		t, err := template.New("replay").Funcs(funcs).Parse(string(tplText))
		var src bytes.Buffer
		if err == nil {
			err = t.Execute(&src, nil) // pass 1: collect terms
		}
		if err == nil {
			err = mf.solve()
		}
		if err == nil {
			src.Reset()
			ferr = nil
			err = t.Execute(&src, nil) // pass 2: with the model
		}
		if err == nil && ferr != nil {
			err = ferr
		}
		if err != nil {
			fmt.Fprintf(&report, "replay: could not instantiate the template from the model: %v\n", err)
		} else {
			// first line of the template: "// package-dir: soyhtml"
			dir := ""
			for _, l := range strings.Split(src.String(), "\n") {
				if strings.HasPrefix(l, "// package-dir:") {
					dir = strings.TrimSpace(strings.TrimPrefix(l, "// package-dir:"))
					break
				}
			}
			testFile := filepath.Join(tmp, "zz_govc_replay_test.go")
			os.WriteFile(testFile, src.Bytes(), 0o644)
			ov := map[string]any{"Replace": map[string]string{filepath.Join(p.repo, dir, "zz_govc_replay_test.go"): testFile}}
			ovData, _ := json.Marshal(ov)
			ovFile := filepath.Join(tmp, "ov.json")
			os.WriteFile(ovFile, ovData, 0o644)
			ctx, cancel := context.WithTimeout(context.Background(), 150*time.Second)
			cmd := exec.CommandContext(ctx, "go", "test", "-overlay", ovFile, "-vet=off", "-count=1", "-timeout", "60s", "-run", "TestGovcReplay", "./"+dir)
			cmd.Dir = p.repo
			cmd.Env = append(os.Environ(), "GOFLAGS=-mod=mod", "GOPROXY=off", "GOSUMDB=off", "GOTOOLCHAIN=local")
			outB, _ := cmd.CombinedOutput()
			cancel()
			outS := string(outB)
			reproduced = strings.Contains(outS, "REPRODUCED")
			fmt.Fprintf(&report, "replay test (injected with go test -overlay into %s):\n%s\nreplay output:\n%s\nreproduced on the real code: %v\n\n", dir, src.String(), tailStr(outS, 4000), reproduced)
		}
	}
	report.WriteString("solver output:\n")
	report.WriteString(trimModelInputs(o.Model))
	os.WriteFile(path, []byte(report.String()), 0o644)
	return path, reproduced
}

func tailStr(s string, n int) string {
	if len(s) > n {
		return "..." + s[len(s)-n:]
	}
	return s
}

func smtRealToGo(v string) string {
	v = strings.TrimSpace(v)
	neg := false
	if strings.HasPrefix(v, "(- ") {
		neg = true
		v = strings.TrimSuffix(strings.TrimPrefix(v, "(- "), ")")
	}
	if strings.HasPrefix(v, "(/ ") {
		parts := strings.Fields(strings.TrimSuffix(strings.TrimPrefix(v, "(/ "), ")"))
		if len(parts) == 2 {
			v = "(" + parts[0] + "/" + parts[1] + ")"
		}
	}
	if neg {
		return "-" + v
	}
	return v
}
