package main

import (
	"fmt"
	"go/ast"
	"go/token"
	"go/types"
	"os"
	"runtime/debug"
	"sort"
	"strconv"
	"strings"

	"golang.org/x/tools/go/ssa"
)

const maxInlineDepth = 3

// CFG helpers -------------------------------------------------------------------

func isBackEdge(p, s *ssa.BasicBlock) bool { return s.Dominates(p) }

func topoOrder(fn *ssa.Function) []*ssa.BasicBlock {
	var order []*ssa.BasicBlock
	seen := map[int]bool{}
	var dfs func(b *ssa.BasicBlock)
	dfs = func(b *ssa.BasicBlock) {
		seen[b.Index] = true
		for _, s := range b.Succs {
			if isBackEdge(b, s) || seen[s.Index] {
				continue
			}
			dfs(s)
		}
		order = append(order, b)
	}
	dfs(fn.Blocks[0])
	for i, j := 0, len(order)-1; i < j; i, j = i+1, j-1 {
		order[i], order[j] = order[j], order[i]
	}
	return order
}

func findLoops(fn *ssa.Function) []*LoopInfo {
	byHdr := map[int]*LoopInfo{}
	for _, b := range fn.Blocks {
		for _, s := range b.Succs {
			if !isBackEdge(b, s) {
				continue
			}
			li := byHdr[s.Index]
			if li == nil {
				li = &LoopInfo{header: s, blocks: map[int]bool{s.Index: true}}
				byHdr[s.Index] = li
			}
			// natural loop: nodes reaching b without passing the header
			var stack []*ssa.BasicBlock
			if !li.blocks[b.Index] {
				li.blocks[b.Index] = true
				stack = append(stack, b)
			}
			for len(stack) > 0 {
				x := stack[len(stack)-1]
				stack = stack[:len(stack)-1]
				for _, p := range x.Preds {
					if !li.blocks[p.Index] {
						li.blocks[p.Index] = true
						stack = append(stack, p)
					}
				}
			}
		}
	}
	var out []*LoopInfo
	for _, li := range byHdr {
		out = append(out, li)
	}
	sort.Slice(out, func(i, j int) bool { return out[i].header.Index < out[j].header.Index })
	for i, li := range out {
		li.ordinal = i
	}
	return out
}

// frame -------------------------------------------------------------------------

func (e *Enc) newFrame(fn *ssa.Function, depth int, top bool) *Frame {
	f := &Frame{e: e, fn: fn, depth: depth, top: top, vals: map[ssa.Value]Val{}, reach: map[int]string{}, endHeap: map[int]*Heap{}, edgeCond: map[[2]int]string{}, loops: map[int]*LoopInfo{}, callOrd: map[string]int{}}
	e.n++
	f.prefix = fmt.Sprintf("%s!%d", sanitize(fn.Name()), e.n)
	for _, li := range findLoops(fn) {
		f.loops[li.header.Index] = li
	}
	f.siteKeys = map[ssa.Instruction]string{}
	ord := map[string]int{}
	for _, b := range fn.Blocks {
		for _, ins := range b.Instrs {
			var cc *ssa.CallCommon
			switch x := ins.(type) {
			case *ssa.Call:
				cc = &x.Call
			case *ssa.Defer:
				cc = &x.Call
			case *ssa.Go:
				cc = &x.Call
			}
			if cc != nil {
				k := e.P.calleeKey(fn, cc)
				f.siteKeys[ins] = fmt.Sprintf("%s#%d", k, ord[k])
				ord[k]++
			}
			if _, ok := ins.(*ssa.MapUpdate); ok {
				f.siteKeys[ins] = fmt.Sprintf("mapupdate#%d", ord["$mapupdate"])
				ord["$mapupdate"]++
			}
			if st, ok := ins.(*ssa.Store); ok {
				switch st.Addr.(type) {
				case *ssa.IndexAddr, *ssa.FieldAddr:
					f.siteKeys[ins] = fmt.Sprintf("store#%d", ord["$store"])
					ord["$store"]++
				}
			}
		}
	}
	return f
}

func sanitize(s string) string {
	var b strings.Builder
	for _, c := range s {
		if c >= 'a' && c <= 'z' || c >= 'A' && c <= 'Z' || c >= '0' && c <= '9' || c == '_' {
			b.WriteRune(c)
		} else {
			b.WriteByte('_')
		}
	}
	return b.String()
}

func (f *Frame) vname(v ssa.Value) string {
	return q(f.prefix + "!" + v.Name())
}

// get returns the encoding of an SSA value.
func (f *Frame) get(v ssa.Value) Val {
	if x, ok := f.vals[v]; ok {
		return x
	}
	e := f.e
	switch c := v.(type) {
	case *ssa.Const:
		return e.constVal(c)
	case *ssa.Global:
		var pkgp string
		if c.Pkg != nil {
			pkgp = c.Pkg.Pkg.Path()
		}
		et := c.Type().(*types.Pointer).Elem()
		return Val{T: "0", Loc: &Loc{Kind: locGlobal, T: et, Var: e.S.globalVar(pkgp, c.Name(), et)}}
	case *ssa.Function:
		return Val{T: e.fnId(c)}
	case *ssa.Builtin:
		return Val{T: "0"}
	}
	// value used before definition (should only happen for unreachable blocks)
	n := f.vname(v)
	if os.Getenv("GOVC_DEBUG_UNDEF") != "" {
		fmt.Fprintf(os.Stderr, "undef use of %s\n%s\n", n, debug.Stack())
	}
	if _, isT := v.Type().(*types.Tuple); isT {
		return f.havocVal(v.Type(), "undef")
	}
	e.decl(n, e.S.sortOf(v.Type()))
	x := Val{T: n}
	f.vals[v] = x
	return x
}

// defined reports whether v has a value on the path encoded so far (a test
// inside the loop body that this path did not go through has none).
func (f *Frame) defined(v ssa.Value) bool {
	if _, ok := f.vals[v]; ok {
		return true
	}
	switch v.(type) {
	case *ssa.Const, *ssa.Global, *ssa.Function, *ssa.Builtin, *ssa.Parameter:
		return true
	}
	return false
}

func (f *Frame) havocVal(t types.Type, hint string) Val {
	e := f.e
	if tup, ok := t.(*types.Tuple); ok {
		var vs []Val
		for i := 0; i < tup.Len(); i++ {
			vs = append(vs, f.havocVal(tup.At(i).Type(), hint))
		}
		return Val{Tuple: vs}
	}
	n := e.fresh(hint)
	e.decl(n, e.S.sortOf(t))
	e.assumeWF("", n, t)
	return Val{T: n}
}

// def binds an SSA value to a term via a named constant.
func (f *Frame) def(v ssa.Value, term string) {
	n := f.vname(v)
	f.e.decl(n, f.e.S.sortOf(v.Type()))
	f.e.assert(fmt.Sprintf("(= %s %s)", n, term))
	f.vals[v] = Val{T: n}
}

func (f *Frame) defLoc(v ssa.Value, l *Loc, ptrTerm string) {
	f.vals[v] = Val{T: ptrTerm, Loc: l}
}

// locOf interprets an SSA pointer value as a location.
func (f *Frame) locOf(v ssa.Value) *Loc {
	x := f.get(v)
	if x.Loc != nil {
		return x.Loc
	}
	pt, ok := v.Type().Underlying().(*types.Pointer)
	if !ok {
		return nil
	}
	return &Loc{Kind: locCell, T: pt.Elem(), Ptr: x.T}
}

func (f *Frame) props() []string {
	if f.e.con != nil {
		return f.e.con.Props
	}
	return nil
}

// safety emits a runtime-panic obligation (if enabled) and then assumes cond.
func (f *Frame) safety(kind, detail, cond string, pos token.Pos) {
	e := f.e
	if (e.con == nil || (e.con.Safety && !e.con.SafetyOff[kind])) && !f.topFrame().recovered {
		name := detail
		if !f.top {
			name = "in:" + f.e.P.fnDisplay(f.fn) + ":" + detail
		}
		e.addObl(kind, name, f.curReach, cond, pos, detail, f.props())
	}
	e.assumeAt(f.curReach, cond)
}

func (f *Frame) exprText(v ssa.Value) string {
	// best-effort source text for naming obligations
	return describe(v, 0)
}

// run encodes the body. heap is the entry heap, reach the entry condition.
func (f *Frame) run(reach string, heap *Heap) {
	f.entry = heap.clone()
	f.runRegion(reach, heap, nil)
}

// region restricts an encoding to part of a function's CFG: the blocks of one
// loop body, entered at `entry`; edges to `header` end the region normally
// (one iteration completed), edges to blocks outside it are exits.
type region struct {
	blocks map[int]bool
	entry  *ssa.BasicBlock
	header *ssa.BasicBlock
	ends   []regionEdge
	exits  []regionEdge
}

type regionEdge struct {
	from *ssa.BasicBlock
	to   *ssa.BasicBlock
	cond string
	heap *Heap
}

// runRegion encodes the whole function (rg == nil) or one region of it.
func (f *Frame) runRegion(reach string, heap *Heap, rg *region) {
	e := f.e
	fn := f.fn
	order := topoOrder(fn)
	done := map[int]bool{}
	for _, b := range order {
		if fn.Recover != nil && b == fn.Recover {
			continue
		}
		if rg != nil && (!rg.blocks[b.Index] || b == rg.header) {
			continue
		}
		f.curBlock = b
		if f.top && rg == nil {
			e.curBlk = b.Index
		}
		var conds []string
		var heaps []*Heap
		var preds []*ssa.BasicBlock
		li := f.loops[b.Index]
		isEntry := (rg == nil && b.Index == 0) || (rg != nil && b == rg.entry)
		if isEntry {
			conds = []string{reach}
			heaps = []*Heap{heap}
			preds = []*ssa.BasicBlock{nil}
		}
		if !isEntry || rg != nil {
			for _, p := range b.Preds {
				if isBackEdge(p, b) || !done[p.Index] {
					continue
				}
				if rg != nil && p == rg.header {
					continue
				}
				conds = append(conds, f.edgeCond[[2]int{p.Index, b.Index}])
				heaps = append(heaps, f.endHeap[p.Index])
				preds = append(preds, p)
			}
		}
		if len(conds) == 0 {
			continue // unreachable
		}
		if f.top && rg == nil && li == nil && len(conds) > 1 && e.con != nil && e.con.SplitReturns && returnOnly(b) && len(f.defers) == 0 {
			// tail duplication: a block that only returns is encoded once per incoming
			// path, so that the postconditions are checked against each path's own heap
			for k := range conds {
				if preds[k] != nil {
					e.curBlk = preds[k].Index
				}
				f.curReach = e.define("R!"+f.prefix+"!"+fmt.Sprint(b.Index), "Bool", conds[k])
				f.reach[b.Index] = f.curReach
				f.heap = heaps[k].clone()
				for _, ins := range b.Instrs {
					f.instr(ins)
				}
			}
			done[b.Index] = true
			f.endHeap[b.Index] = f.heap
			continue
		}
		r := e.define("R!"+f.prefix+"!"+fmt.Sprint(b.Index), "Bool", or(conds...))
		f.reach[b.Index] = r
		f.curReach = r
		f.heap = e.mergeHeaps(conds, heaps)
		if li != nil {
			f.enterLoop(li, preds, conds)
		} else {
			for _, ins := range b.Instrs {
				phi, ok := ins.(*ssa.Phi)
				if !ok {
					break
				}
				f.mergePhi(phi, b, preds, conds)
			}
		}
		for _, ins := range b.Instrs {
			if _, ok := ins.(*ssa.Phi); ok {
				continue
			}
			f.instr(ins)
		}
		done[b.Index] = true
		f.endHeap[b.Index] = f.heap
		// edges
		last := b.Instrs[len(b.Instrs)-1]
		for i, s := range b.Succs {
			c := f.curReach
			if iff, ok := last.(*ssa.If); ok && b.Succs[0] != b.Succs[1] {
				ct := f.get(iff.Cond).T
				if i == 1 {
					ct = not(ct)
				}
				c = and(c, ct)
			}
			ec := e.define("E!"+f.prefix, "Bool", c)
			f.edgeCond[[2]int{b.Index, s.Index}] = ec
			if rg != nil && s == rg.header {
				rg.ends = append(rg.ends, regionEdge{from: b, to: s, cond: ec, heap: f.heap})
				continue
			}
			if rg != nil && !rg.blocks[s.Index] {
				rg.exits = append(rg.exits, regionEdge{from: b, to: s, cond: ec, heap: f.heap})
				continue
			}
			if isBackEdge(b, s) {
				f.backEdge(f.loops[s.Index], b, ec)
			}
			// `atexit` clauses of the loops this edge leaves
			if f.top {
				for _, li := range f.loops {
					if li == nil || li.spec == nil || len(li.spec.AtExit) == 0 || !li.blocks[b.Index] || li.blocks[s.Index] {
						continue
					}
					for i, c := range li.spec.AtExit {
						env := f.specEnv(f.heap, nil, nil)
						t, err := env.evalBool(c.Expr)
						if err != nil {
							e.unsupp(fmt.Sprintf("%s atexit %d: %v", f.loopTag(li), i, err))
							continue
						}
						e.addObl("loop.exit", f.loopTag(li)+":"+clauseLabel(c, i), ec, t, last.Pos(), c.Src, clauseProps(c, f.props()))
					}
				}
			}
		}
	}
}

func (f *Frame) mergePhi(phi *ssa.Phi, b *ssa.BasicBlock, preds []*ssa.BasicBlock, conds []string) {
	var terms []string
	for _, p := range preds {
		for i, bp := range b.Preds {
			if bp == p {
				terms = append(terms, f.get(phi.Edges[i]).T)
				break
			}
		}
	}
	t := terms[len(terms)-1]
	for i := len(terms) - 2; i >= 0; i-- {
		t = fmt.Sprintf("(ite %s %s %s)", conds[i], terms[i], t)
	}
	f.def(phi, t)
}

func phiIncoming(phi *ssa.Phi, pred *ssa.BasicBlock) ssa.Value {
	for i, bp := range phi.Block().Preds {
		if bp == pred {
			return phi.Edges[i]
		}
	}
	return nil
}

func (f *Frame) loopSpec(li *LoopInfo) *LoopSpec {
	ls := &LoopSpec{}
	if f.top && f.e.con != nil {
		if x := f.e.con.Loops[li.ordinal]; x != nil {
			c := *x
			ls = &c
		}
		// requires clauses labelled inv:... are object invariants: they are also
		// loop invariants of every loop of the function
		if f.e.con.NoTermAll {
			ls.NoTerm = true
		}
		for _, r := range f.e.con.Requires {
			if strings.HasPrefix(r.Label, "inv:") {
				ls.Invariants = append(append([]Clause{}, ls.Invariants...), r)
			}
		}
	}
	return ls
}

func (f *Frame) loopTag(li *LoopInfo) string {
	t := fmt.Sprintf("loop%d", li.ordinal)
	if !f.top {
		t = "in:" + f.e.P.fnDisplay(f.fn) + ":" + t
	}
	return t
}

func (f *Frame) enterLoop(li *LoopInfo, preds []*ssa.BasicBlock, conds []string) {
	e := f.e
	b := li.header
	li.spec = f.loopSpec(li)
	li.phiConst = map[*ssa.Phi]string{}
	entryHeap := f.heap
	// phis
	var loopPhis []*ssa.Phi
	for _, ins := range b.Instrs {
		phi, ok := ins.(*ssa.Phi)
		if !ok {
			break
		}
		hasBack := false
		for _, p := range b.Preds {
			if isBackEdge(p, b) {
				hasBack = true
			}
		}
		if !hasBack {
			f.mergePhi(phi, b, preds, conds)
			continue
		}
		loopPhis = append(loopPhis, phi)
	}
	// invariant obligations on entry edges (before anything about the header state is assumed)
	tag := f.loopTag(li)
	for k, p := range preds {
		var ph *Heap
		if p == nil {
			ph = entryHeap
		} else {
			ph = f.endHeap[p.Index]
		}
		for i, inv := range li.spec.Invariants {
			env := f.specEnv(ph, li, p)
			t, err := env.evalBool(inv.Expr)
			if err != nil {
				e.unsupp(fmt.Sprintf("%s invariant %d: %v", tag, i, err))
				continue
			}
			e.addObl("inv.entry", tag+":"+clauseLabel(inv, i), conds[k], t, b.Instrs[0].Pos(), inv.Src, clauseProps(inv, f.props()))
		}
	}
	// header state: havoc
	hdr := entryHeap.clone()
	ws := e.loopWriteSet(f, li)
	allocBefore := ""
	var allowed map[string][]*Loc
	framed := false
	// loops of inlined helpers are framed by the contract of the function under verification
	topf := f
	for topf.parent != nil {
		topf = topf.parent
	}
	if topf.top {
		allowed, framed = topf.allowedLocs()
	}
	li.framed = map[string]bool{}
	for _, v := range ws {
		if v == "$alloc" {
			allocBefore = e.hget(hdr, v)
		}
		before := e.hget(hdr, v)
		if refs, ok := li.mapPoints[v]; ok && !(framed && topf.framedVar(v)) {
			// only these maps are written in the loop: every other map keeps its contents
			cur := before
			for _, rv := range refs {
				so := e.S.heapSort[v]
				inner := strings.TrimSuffix(strings.TrimPrefix(so, "(Array Int "), ")")
				n := e.fresh("mapcell")
				e.decl(n, inner)
				ref := ""
				if u, ok := rv.(*ssa.UnOp); ok {
					if g, ok := u.X.(*ssa.Global); ok {
						var pkgp string
						if g.Pkg != nil {
							pkgp = g.Pkg.Pkg.Path()
						}
						ref = e.hget(hdr, e.S.globalVar(pkgp, g.Name(), g.Type().(*types.Pointer).Elem()))
					}
				}
				if ref == "" {
					ref = f.get(rv).T
				}
				cur = fmt.Sprintf("(store %s %s %s)", cur, ref, n)
			}
			e.hset(hdr, v, cur)
			continue
		}
		e.hhavoc(hdr, v)
		if framed && topf.framedVar(v) {
			// the loop may change v only where the function's modifies clause allows
			// (re-checked for the loop body at every back edge: frame.loop)
			e.assert(topf.frameDef(v, e.hget(hdr, v), before, allowed[v]))
			li.framed[v] = true
		}
	}
	if allocBefore != "" {
		e.assert(fmt.Sprintf("(>= %s %s)", e.hget(hdr, "$alloc"), allocBefore))
	}
	// non-escaping local cells that the loop never stores to keep their value
	for fr := f; fr != nil; fr = fr.parent {
		for i, l := range fr.private {
			if i >= len(fr.privateAllocs) || loopStoresTo(li, fr.fn, fr.privateAllocs[i]) {
				continue
			}
			for _, hv := range e.heapVarsOfLoc(l) {
				now, old := e.hget(hdr, hv), e.hget(entryHeap, hv)
				if now != old {
					e.assert(fmt.Sprintf("(= (select %s %s) (select %s %s))", now, l.Ptr, old, l.Ptr))
				}
			}
		}
	}
	f.heap = hdr
	li.hdrHeap = hdr.clone()
	for _, phi := range loopPhis {
		n := f.vname(phi)
		e.decl(n, e.S.sortOf(phi.Type()))
		e.assumeWF("", n, phi.Type())
		f.vals[phi] = Val{T: n}
		li.phiConst[phi] = n
		f.assumeAllocated(n, phi.Type(), 0)
		if lb, ok := monotonePhiLowerBound(phi); ok {
			// counting phi: starts at a constant and only ever grows
			e.assert(fmt.Sprintf("(>= %s %s)", n, lb))
		}
	}
	// iterator facts: 0 <= iterpos
	for _, inv := range li.spec.Invariants {
		env := f.specEnv(hdr, li, b)
		t, err := env.evalBool(inv.Expr)
		if err != nil {
			continue
		}
		e.assumeAt(f.curReach, t)
	}
	if f.top {
		e.addReach(tag, f.curReach, b.Instrs[0].Pos())
	}
	for i, d := range li.spec.Decreases {
		env := f.specEnv(hdr, li, b)
		v, _, err := env.eval(d.Expr)
		if err != nil {
			e.unsupp(fmt.Sprintf("%s decreases %d: %v", tag, i, err))
			continue
		}
		li.variant = append(li.variant, e.define("variant", "Int", v.T))
		li.varExprs = append(li.varExprs, d)
	}
	if len(li.spec.Decreases) == 0 && !li.spec.NoTerm {
		f.inferVariant(li)
	}
	f.orderCheck(li)
}

// inferVariant derives candidate variants from the loop's exit tests
// (x < y  ->  y - x etc.) when the contract declares none.
func (f *Frame) inferVariant(li *LoopInfo) {
	li.inferred = true
}

func clauseLabel(c Clause, i int) string {
	if c.Label != "" {
		return c.Label
	}
	return fmt.Sprint(i)
}

func clauseProps(c Clause, def []string) []string {
	if c.Props != nil {
		return c.Props
	}
	return def
}

func (f *Frame) backEdge(li *LoopInfo, from *ssa.BasicBlock, ec string) {
	e := f.e
	tag := f.loopTag(li)
	pos := li.header.Instrs[0].Pos()
	if !pos.IsValid() {
		for _, ins := range li.header.Instrs {
			if ins.Pos().IsValid() {
				pos = ins.Pos()
				break
			}
		}
	}
	if len(li.framed) > 0 {
		topf := f
		for topf.parent != nil {
			topf = topf.parent
		}
		allowed, _ := topf.allowedLocs()
		var vs []string
		for v := range li.framed {
			vs = append(vs, v)
		}
		sort.Strings(vs)
		var gn, gc []string
		for _, v := range vs {
			now, before := e.hget(f.heap, v), e.hget(li.hdrHeap, v)
			if now == before {
				continue
			}
			gn = append(gn, tag+":"+v)
			gc = append(gc, topf.frameCond(v, now, before, allowed[v]))
		}
		e.addGroup("frame.loop", tag+":all", ec, gn, gc, pos, "loop body writes only what the function's modifies clause allows", f.props())
	}
	for i, inv := range li.spec.Invariants {
		env := f.specEnv(f.heap, li, from)
		t, err := env.evalBool(inv.Expr)
		if err != nil {
			e.unsupp(fmt.Sprintf("%s invariant %d: %v", tag, i, err))
			continue
		}
		e.addObl("inv.preserved", tag+":"+clauseLabel(inv, i), ec, t, pos, inv.Src, clauseProps(inv, f.props()))
	}
	if li.spec.NoTerm || !f.top {
		return // termination of an inlined callee is not this function's obligation
	}
	if len(li.variant) > 0 {
		env := f.specEnv(f.heap, li, from)
		var now []string
		for _, d := range li.varExprs {
			v, _, err := env.eval(d.Expr)
			if err != nil {
				e.unsupp(fmt.Sprintf("%s decreases: %v", tag, err))
				return
			}
			now = append(now, v.T)
		}
		// lexicographic decrease
		cond := "false"
		for i := len(now) - 1; i >= 0; i-- {
			dec := fmt.Sprintf("(and (< %s %s) (>= %s 0))", now[i], li.variant[i], li.variant[i])
			if i == len(now)-1 {
				cond = dec
			} else {
				cond = fmt.Sprintf("(or %s (and (= %s %s) %s))", dec, now[i], li.variant[i], cond)
			}
		}
		var srcs []string
		for _, d := range li.varExprs {
			srcs = append(srcs, d.Src)
		}
		e.addObl("decreases", tag, ec, cond, pos, strings.Join(srcs, ", "), clauseProps(li.varExprs[0], f.props()))
		return
	}
	// inferred variants: range loops and simple counting loops
	if cand := f.autoVariant(li, from); cand != "" {
		o := e.addObl("decreases", tag+":auto", ec, cand, pos, "inferred variant", f.props())
		if o != nil {
			o.Optional = false
		}
		return
	}
	o := e.addObl("decreases", tag+":none", ec, "false", pos, "no variant declared or inferable", f.props())
	_ = o
}

// autoVariant recognises  i = phi(c, i+1); if i+1 < len  (range over slice) and
// string/map range iterators, and simple `for i := a; i < n; i++` loops.
func (f *Frame) autoVariant(li *LoopInfo, from *ssa.BasicBlock) string {
	e := f.e
	// find the If that exits the loop in the header or its immediate successor
	for idx := range li.blocks {
		b := f.fn.Blocks[idx]
		if len(b.Instrs) == 0 {
			continue
		}
		iff, ok := b.Instrs[len(b.Instrs)-1].(*ssa.If)
		if !ok {
			continue
		}
		exits := !li.blocks[b.Succs[0].Index] || !li.blocks[b.Succs[1].Index]
		if !exits {
			continue
		}
		stayOnTrue := li.blocks[b.Succs[0].Index]
		switch c := iff.Cond.(type) {
		case *ssa.BinOp:
			if !isIntType(c.X.Type()) {
				continue
			}
			var hi, lo ssa.Value
			op := c.Op
			if !stayOnTrue {
				op = negateCmp(op)
			}
			switch op {
			case token.LSS, token.LEQ:
				lo, hi = c.X, c.Y
			case token.GTR, token.GEQ:
				lo, hi = c.Y, c.X
			default:
				continue
			}
			// variant: hi - lo measured on the header phi that feeds lo/hi
			for phi, pc := range li.phiConst {
				if !isIntType(phi.Type()) {
					continue
				}
				inc := phiIncoming(phi, from)
				if inc == nil {
					continue
				}
				incT := f.get(inc).T
				if dependsOn(lo, phi) && !dependsOn(hi, phi) && f.loopInvariantValue(hi, li) && f.defined(hi) {
					hiT := f.get(hi).T
					// distance shrinks: (hi - inc) < (hi - phi) and hi - phi >= 0 at a continuing iteration... we only know the test passed at the header state
					return fmt.Sprintf("(and (< (- %s %s) (- %s %s)))", hiT, incT, hiT, pc)
				}
				if dependsOn(hi, phi) && !dependsOn(lo, phi) && f.loopInvariantValue(lo, li) && f.defined(lo) {
					loT := f.get(lo).T
					return fmt.Sprintf("(and (< (- %s %s) (- %s %s)))", incT, loT, pc, loT)
				}
			}
		case *ssa.Extract:
			// ok of a Next: iterator position strictly increases and is bounded
			if nx, ok := c.Tuple.(*ssa.Next); ok && c.Index == 0 {
				it := f.get(nx.Iter).T
				now := fmt.Sprintf("(select %s %s)", e.hget(f.heap, e.S.iterVar()), it)
				before := fmt.Sprintf("(select %s %s)", e.hget(li.hdrHeap, e.S.iterVar()), it)
				return fmt.Sprintf("(> %s %s)", now, before)
			}
		}
	}
	return ""
}

func isIntType(t types.Type) bool {
	b, ok := t.Underlying().(*types.Basic)
	return ok && b.Info()&types.IsInteger != 0
}

func negateCmp(op token.Token) token.Token {
	switch op {
	case token.LSS:
		return token.GEQ
	case token.LEQ:
		return token.GTR
	case token.GTR:
		return token.LEQ
	case token.GEQ:
		return token.LSS
	case token.EQL:
		return token.NEQ
	case token.NEQ:
		return token.EQL
	}
	return op
}

func dependsOn(v ssa.Value, phi *ssa.Phi) bool {
	if v == ssa.Value(phi) {
		return true
	}
	if b, ok := v.(*ssa.BinOp); ok {
		if _, isC := b.Y.(*ssa.Const); isC {
			return dependsOn(b.X, phi)
		}
		if _, isC := b.X.(*ssa.Const); isC {
			return dependsOn(b.Y, phi)
		}
	}
	if c, ok := v.(*ssa.Convert); ok {
		return dependsOn(c.X, phi)
	}
	return false
}

// loopInvariantValue: v is defined outside the loop (or is a constant, or a
// len() of such a value).
func (f *Frame) loopInvariantValue(v ssa.Value, li *LoopInfo) bool {
	switch x := v.(type) {
	case *ssa.Const, *ssa.Parameter, *ssa.FreeVar:
		return true
	case ssa.Instruction:
		if !li.blocks[x.Block().Index] {
			return true
		}
		if call, ok := v.(*ssa.Call); ok {
			if b, ok := call.Call.Value.(*ssa.Builtin); ok && b.Name() == "len" {
				return f.loopInvariantValue(call.Call.Args[0], li)
			}
		}
		if c, ok := v.(*ssa.Convert); ok {
			return f.loopInvariantValue(c.X, li)
		}
	}
	return false
}

// name resolution for contract expressions -----------------------------------------

// specEnv builds the environment used to evaluate a contract expression at a
// loop header (li != nil) in the state reached through edge from->header
// (from == header means: the havoced header state).
func (f *Frame) specEnv(h *Heap, li *LoopInfo, from *ssa.BasicBlock) *SpecEnv {
	env := &SpecEnv{e: f.e, f: f, heap: h, pkg: f.fn.Pkg.Pkg, names: map[string]specVal{}}
	if f.fn.Pkg == nil && f.fn.Parent() != nil {
		env.pkg = f.fn.Parent().Pkg.Pkg
	}
	env.resolve = func(name string) (specVal, bool) {
		return f.lookupName(name, li, from)
	}
	old := &SpecEnv{e: f.e, f: f, heap: f.entry, pkg: env.pkg, names: map[string]specVal{}}
	old.resolve = func(name string) (specVal, bool) {
		for i, p := range f.fn.Params {
			if p.Name() == name {
				return specVal{v: f.args[i], t: p.Type()}, true
			}
		}
		if name == "self" && f.selfTerm != "" {
			return specVal{v: Val{T: f.selfTerm}, t: f.fn.Signature}, true
		}
		return specVal{}, false
	}
	env.old = old
	return env
}

func (f *Frame) lookupName(name string, li *LoopInfo, from *ssa.BasicBlock) (specVal, bool) {
	fn := f.fn
	// <name>__loop<k>: the phi called <name> at the header of loop k (an enclosing
	// loop's variable that an inner loop shadows, e.g. the outer rangeindex)
	if i := strings.Index(name, "__loop"); i > 0 {
		if k, err := strconv.Atoi(name[i+6:]); err == nil {
			for _, l := range findLoops(fn) {
				if l.ordinal != k {
					continue
				}
				if li != nil && l.header == li.header {
					return f.lookupName(name[:i], li, from)
				}
				for _, ins := range l.header.Instrs {
					phi, ok := ins.(*ssa.Phi)
					if !ok {
						break
					}
					if phi.Comment == name[:i] && f.vals[phi].T != "" {
						return specVal{v: f.get(phi), t: phi.Type()}, true
					}
				}
			}
			return specVal{}, false
		}
	}
	var at *ssa.BasicBlock
	if li != nil {
		at = li.header
		// phis at this header
		for _, ins := range li.header.Instrs {
			phi, ok := ins.(*ssa.Phi)
			if !ok {
				break
			}
			if phi.Comment == name {
				if from == li.header || from == nil && false {
					return specVal{v: f.get(phi), t: phi.Type()}, true
				}
				if _, isLoopPhi := li.phiConst[phi]; !isLoopPhi && f.vals[phi].T != "" {
					return specVal{v: f.get(phi), t: phi.Type()}, true
				}
				var inc ssa.Value
				if from == nil {
					// function entry edge cannot feed a phi
					return specVal{}, false
				}
				inc = phiIncoming(phi, from)
				if inc == nil {
					return specVal{}, false
				}
				return specVal{v: f.get(inc), t: phi.Type()}, true
			}
		}
	} else {
		at = f.curBlock
	}
	// parameters spilled to a local cell (address taken / fields selected): the cell holds the current value
	if len(fn.Blocks) > 0 {
		for _, ins := range fn.Blocks[0].Instrs {
			if al, ok := ins.(*ssa.Alloc); ok && al.Comment == name {
				if _, done := f.vals[al]; done {
					if l := f.locOf(al); l != nil {
						return specVal{loc: l, t: l.T}, true
					}
				}
			}
		}
	}
	for i, p := range fn.Params {
		if p.Name() == name {
			return specVal{v: f.args[i], t: p.Type()}, true
		}
	}
	if name == "self" && f.selfTerm != "" {
		return specVal{v: Val{T: f.selfTerm}, t: fn.Signature}, true
	}
	for _, fv := range fn.FreeVars {
		if fv.Name() == name {
			// captured variables are pointers to cells
			x := f.get(fv)
			if pt, ok := fv.Type().(*types.Pointer); ok {
				return specVal{loc: &Loc{Kind: locCell, T: pt.Elem(), Ptr: x.T}, t: pt.Elem()}, true
			}
			return specVal{v: x, t: fv.Type()}, true
		}
	}
	// enclosing phis (outer loops) and debug refs that dominate `at`
	var best ssa.Value
	var bestAddr bool
	var bestBlock *ssa.BasicBlock
	consider := func(v ssa.Value, isAddr bool, blk *ssa.BasicBlock) {
		if at != nil && !(blk.Dominates(at)) {
			return
		}
		if _, ok := f.vals[v]; !ok {
			if _, isC := v.(*ssa.Const); !isC {
				if _, isG := v.(*ssa.Global); !isG {
					return
				}
			}
		}
		if bestBlock == nil || bestBlock.Dominates(blk) {
			best, bestAddr, bestBlock = v, isAddr, blk
		}
	}
	for _, b := range fn.Blocks {
		for _, ins := range b.Instrs {
			switch x := ins.(type) {
			case *ssa.Phi:
				if x.Comment == name && b != at {
					consider(x, false, b)
				}
			case *ssa.DebugRef:
				if id, ok := x.Expr.(*ast.Ident); ok && id.Name == name {
					consider(x.X, x.IsAddr, b)
				}
			case *ssa.Alloc:
				if x.Comment == name {
					consider(x, true, b)
				}
			}
		}
	}
	// an address-taken variable lives in its cell: prefer the cell (current value)
	// over any earlier loaded copy
	for _, b := range fn.Blocks {
		for _, ins := range b.Instrs {
			if al, ok := ins.(*ssa.Alloc); ok && al.Comment == name && (at == nil || b.Dominates(at)) {
				if _, done := f.vals[al]; done {
					best, bestAddr = al, true
				}
			}
		}
	}
	if best != nil {
		if bestAddr {
			l := f.locOf(best)
			if l != nil {
				return specVal{loc: l, t: l.T}, true
			}
		}
		return specVal{v: f.get(best), t: best.Type()}, true
	}
	return specVal{}, false
}

// monotonePhiLowerBound recognises phi(c, phi + k, ...) with constant c and
// k >= 0 on every back edge (range indices, counters): phi >= c is inductive.
func monotonePhiLowerBound(phi *ssa.Phi) (string, bool) {
	if !isIntType(phi.Type()) {
		return "", false
	}
	b := phi.Block()
	var lb *ssa.Const
	for i, p := range b.Preds {
		ev := phi.Edges[i]
		if isBackEdge(p, b) {
			bo, ok := ev.(*ssa.BinOp)
			if ev == ssa.Value(phi) {
				continue
			}
			if !ok || bo.Op != token.ADD || bo.X != ssa.Value(phi) {
				return "", false
			}
			k, ok := bo.Y.(*ssa.Const)
			if !ok || k.Value == nil || k.Int64() < 0 {
				return "", false
			}
			continue
		}
		c, ok := ev.(*ssa.Const)
		if !ok || c.Value == nil {
			return "", false
		}
		if lb != nil && lb.Int64() != c.Int64() {
			if c.Int64() < lb.Int64() {
				lb = c
			}
			continue
		}
		lb = c
	}
	if lb == nil {
		return "", false
	}
	v := lb.Int64()
	if v < 0 {
		return fmt.Sprintf("(- %d)", -v), true
	}
	return fmt.Sprint(v), true
}

// loopStoresTo: does any block of the loop (in function fn) store to the local
// cell al, directly or through a closure that captures it?
func loopStoresTo(li *LoopInfo, fn *ssa.Function, al *ssa.Alloc) bool {
	if li.header.Parent() != fn {
		return true // a loop of another (inlined) function: be conservative only for its own frame's cells
	}
	rooted := func(v ssa.Value) bool {
		for {
			switch x := v.(type) {
			case *ssa.Alloc:
				return x == al
			case *ssa.FieldAddr:
				v = x.X
			case *ssa.IndexAddr:
				v = x.X
			default:
				return false
			}
		}
	}
	for idx := range li.blocks {
		for _, ins := range fn.Blocks[idx].Instrs {
			switch x := ins.(type) {
			case *ssa.Store:
				if rooted(x.Addr) {
					return true
				}
			case *ssa.MakeClosure:
				for _, b := range x.Bindings {
					if b == ssa.Value(al) {
						return true
					}
				}
			case ssa.CallInstruction:
				// the callee may write through a pointer into the cell
				for _, a := range x.Common().Args {
					if rooted(a) {
						return true
					}
				}
			}
		}
	}
	return false
}

// returnOnly: the block consists of a return (and debug references) only.
func returnOnly(b *ssa.BasicBlock) bool {
	for _, ins := range b.Instrs {
		switch ins.(type) {
		case *ssa.Return, *ssa.DebugRef:
		default:
			return false
		}
	}
	return len(b.Succs) == 0
}
