package main

// Evaluation of contract expressions (Go expression syntax plus old, forall,
// exists, implies, fresh, result, typeis ...) to SMT terms.

import (
	"fmt"
	"go/ast"
	"go/constant"
	"go/token"
	"go/types"
	"strconv"
	"strings"
)

type specVal struct {
	v   Val
	loc *Loc
	t   types.Type
}

type SpecEnv struct {
	e       *Enc
	f       *Frame
	pkg     *types.Package
	heap    *Heap
	old     *SpecEnv
	names   map[string]specVal
	resolve func(string) (specVal, bool)
	depth   int
	noFacts bool // structural evaluation only (dummy values): emit no side facts
}

func (env *SpecEnv) child() *SpecEnv {
	c := *env
	c.names = map[string]specVal{}
	for k, v := range env.names {
		c.names[k] = v
	}
	return &c
}

var tInt = types.Typ[types.Int]
var tBool = types.Typ[types.Bool]
var tString = types.Typ[types.String]

func (env *SpecEnv) evalBool(x ast.Expr) (string, error) {
	v, _, err := env.eval(x)
	if err != nil {
		return "", err
	}
	return v.T, nil
}

func (env *SpecEnv) term(sv specVal) string {
	if sv.loc != nil {
		t := env.e.load(env.heap, sv.loc)
		env.assumeStoredRefAllocated(t, sv.t)
		return t
	}
	return sv.v.T
}

// assumeStoredRefAllocated: a reference read from a heap snapshot was allocated
// before that snapshot was taken (no dangling references in a Go heap). Only
// closed terms (no bound variables of an enclosing quantifier) are constrained.
func (env *SpecEnv) assumeStoredRefAllocated(t string, ty types.Type) {
	if ty == nil || env.noFacts || env.e.dry || strings.Contains(t, "|?") {
		return
	}
	e := env.e
	al := e.hget(env.heap, e.S.allocVar())
	var fact string
	switch ty.Underlying().(type) {
	case *types.Pointer, *types.Map, *types.Chan:
		fact = fmt.Sprintf("(< %s %s)", t, al)
	case *types.Slice:
		fact = fmt.Sprintf("(< (sl_base %s) %s)", t, al)
	default:
		return
	}
	if e.refFacts == nil {
		e.refFacts = map[string]int{}
	}
	key := fmt.Sprintf("%d:%s", e.curBlk, fact)
	if i, ok := e.refFacts[key]; ok && i < len(e.lines) && e.lines[i].blk == e.curBlk && strings.Contains(e.lines[i].text, fact) {
		return // already asserted for this block (and not trimmed away since)
	}
	e.refFacts[key] = len(e.lines)
	e.assert(fact)
}

func (env *SpecEnv) lookupType(src string) (types.Type, error) {
	tv, err := types.Eval(token.NewFileSet(), env.pkg, token.NoPos, src)
	if err != nil {
		// qualified names of other packages: pkgname.Type, resolved through imports of any loaded package
		if t := env.e.P.lookupQualifiedType(src); t != nil {
			return t, nil
		}
		// slices of such types
		if strings.HasPrefix(src, "[]") {
			if et, err2 := env.lookupType(src[2:]); err2 == nil {
				return types.NewSlice(et), nil
			}
		}
		return nil, fmt.Errorf("type %q: %v", src, err)
	}
	if !tv.IsType() {
		return nil, fmt.Errorf("%q is not a type", src)
	}
	return tv.Type, nil
}

func (env *SpecEnv) eval(x ast.Expr) (Val, types.Type, error) {
	e := env.e
	switch n := x.(type) {
	case *ast.ParenExpr:
		return env.eval(n.X)
	case *ast.BasicLit:
		switch n.Kind {
		case token.INT:
			v := constant.MakeFromLiteral(n.Value, token.INT, 0)
			return Val{T: v.ExactString()}, tInt, nil
		case token.CHAR:
			r, _, _, err := strconv.UnquoteChar(n.Value[1:len(n.Value)-1], '\'')
			if err != nil {
				return Val{}, nil, err
			}
			return Val{T: fmt.Sprint(int(r))}, tInt, nil
		case token.STRING:
			s, err := strconv.Unquote(n.Value)
			if err != nil {
				return Val{}, nil, err
			}
			return Val{T: e.strConst(s)}, tString, nil
		case token.FLOAT:
			return Val{T: floatLit(constant.MakeFromLiteral(n.Value, token.FLOAT, 0))}, types.Typ[types.Float64], nil
		}
	case *ast.Ident:
		return env.evalIdent(n.Name)
	case *ast.UnaryExpr:
		v, t, err := env.eval(n.X)
		if err != nil {
			return Val{}, nil, err
		}
		switch n.Op {
		case token.NOT:
			return Val{T: not(v.T)}, tBool, nil
		case token.SUB:
			if isFloat(t) {
				return Val{T: e.fop("neg", v.T)}, t, nil
			}
			return Val{T: "(- " + v.T + ")"}, t, nil
		case token.ADD:
			return v, t, nil
		}
	case *ast.BinaryExpr:
		return env.evalBinary(n)
	case *ast.SelectorExpr:
		// package-qualified identifier?
		if id, ok := n.X.(*ast.Ident); ok {
			if _, found := env.lookupLocal(id.Name); !found {
				if obj := env.e.P.lookupQualified(env.pkg, id.Name, n.Sel.Name); obj != nil {
					return env.objVal(obj)
				}
			}
		}
		sv, err := env.evalLoc(n)
		if err != nil {
			return Val{}, nil, err
		}
		return Val{T: env.term(sv)}, sv.t, nil
	case *ast.StarExpr:
		sv, err := env.evalLoc(n)
		if err != nil {
			return Val{}, nil, err
		}
		return Val{T: env.term(sv)}, sv.t, nil
	case *ast.IndexExpr:
		base, bt, err := env.eval(n.X)
		if err != nil {
			return Val{}, nil, err
		}
		idx, _, err := env.eval(n.Index)
		if err != nil {
			return Val{}, nil, err
		}
		switch u := bt.Underlying().(type) {
		case *types.Basic: // string
			return Val{T: fmt.Sprintf("(str_at %s %s)", base.T, idx.T)}, types.Typ[types.Uint8], nil
		case *types.Slice:
			return Val{T: fmt.Sprintf("(select (select %s (sl_base %s)) (+ (sl_off %s) %s))", e.hget(env.heap, e.S.elemVar(u.Elem())), base.T, base.T, idx.T)}, u.Elem(), nil
		case *types.Map:
			return Val{T: fmt.Sprintf("(select (select %s %s) %s)", e.hget(env.heap, e.S.mapVar(u)), base.T, idx.T)}, u.Elem(), nil
		case *types.Array:
			return Val{T: fmt.Sprintf("(select %s %s)", base.T, idx.T)}, u.Elem(), nil
		}
		return Val{}, nil, fmt.Errorf("cannot index %s", bt)
	case *ast.SliceExpr:
		base, bt, err := env.eval(n.X)
		if err != nil {
			return Val{}, nil, err
		}
		lo, hi := "0", ""
		if n.Low != nil {
			v, _, err := env.eval(n.Low)
			if err != nil {
				return Val{}, nil, err
			}
			lo = v.T
		}
		if n.High != nil {
			v, _, err := env.eval(n.High)
			if err != nil {
				return Val{}, nil, err
			}
			hi = v.T
		}
		if isString(bt) {
			if hi == "" {
				hi = "(s_len " + base.T + ")"
			}
			return Val{T: fmt.Sprintf("(mk_str (s_arr %s) (+ (s_off %s) %s) (- %s %s))", base.T, base.T, lo, hi, lo)}, bt, nil
		}
		if _, ok := bt.Underlying().(*types.Slice); ok {
			if hi == "" {
				hi = "(sl_len " + base.T + ")"
			}
			return Val{T: fmt.Sprintf("(mk_slice (sl_base %s) (+ (sl_off %s) %s) (- %s %s) (- (sl_cap %s) %s))", base.T, base.T, lo, hi, lo, base.T, lo)}, bt, nil
		}
		return Val{}, nil, fmt.Errorf("cannot slice %s", bt)
	case *ast.CallExpr:
		return env.evalCall(n)
	}
	return Val{}, nil, fmt.Errorf("unsupported spec expression %T", x)
}

func isFloat(t types.Type) bool {
	b, ok := t.Underlying().(*types.Basic)
	return ok && b.Info()&types.IsFloat != 0
}
func isString(t types.Type) bool {
	b, ok := t.Underlying().(*types.Basic)
	return ok && b.Info()&types.IsString != 0
}

func (env *SpecEnv) lookupLocal(name string) (specVal, bool) {
	if sv, ok := env.names[name]; ok {
		return sv, true
	}
	if env.resolve != nil {
		if sv, ok := env.resolve(name); ok {
			return sv, true
		}
	}
	return specVal{}, false
}

func (env *SpecEnv) evalIdent(name string) (Val, types.Type, error) {
	e := env.e
	switch name {
	case "true":
		return Val{T: "true"}, tBool, nil
	case "false":
		return Val{T: "false"}, tBool, nil
	case "nil":
		return Val{T: "0"}, types.Typ[types.UntypedNil], nil
	}
	if sv, ok := env.lookupLocal(name); ok {
		return Val{T: env.term(sv), Tuple: sv.v.Tuple}, sv.t, nil
	}
	// ghost variables of the function under verification
	if e.con != nil {
		for _, g := range e.con.Ghosts {
			if g.Name == name {
				l, t, err := env.ghostLoc(g)
				if err != nil {
					return Val{}, nil, err
				}
				return Val{T: e.load(env.heap, l)}, t, nil
			}
		}
	}
	if gl, gt, ok := env.gghostLoc(name); ok {
		return Val{T: e.load(env.heap, gl)}, gt, nil
	}
	if obj := env.pkg.Scope().Lookup(name); obj != nil {
		return env.objVal(obj)
	}
	if obj := types.Universe.Lookup(name); obj != nil {
		return env.objVal(obj)
	}
	return Val{}, nil, fmt.Errorf("unknown identifier %q", name)
}

// gghostLoc resolves a package-level ghost variable.
func (env *SpecEnv) gghostLoc(name string) (*Loc, types.Type, bool) {
	for key, gt := range env.e.P.specs.GGhosts {
		if strings.HasSuffix(key, "."+name) {
			t, err := env.lookupType(gt)
			if err != nil {
				return nil, nil, false
			}
			v := env.e.S.heapVar("ghost!g!"+key, env.e.S.sortOf(t))
			return &Loc{Kind: locGhost, T: t, Var: v}, t, true
		}
	}
	return nil, nil, false
}

func (env *SpecEnv) ghostLoc(g GhostDecl) (*Loc, types.Type, error) {
	t, err := env.lookupType(g.Type)
	if err != nil {
		return nil, nil, err
	}
	v := env.e.S.heapVar("ghost!"+g.Name, env.e.S.sortOf(t))
	return &Loc{Kind: locGhost, T: t, Var: v}, t, nil
}

func (env *SpecEnv) objVal(obj types.Object) (Val, types.Type, error) {
	e := env.e
	switch o := obj.(type) {
	case *types.Const:
		t := o.Type()
		switch {
		case o.Val().Kind() == constant.Bool:
			if constant.BoolVal(o.Val()) {
				return Val{T: "true"}, t, nil
			}
			return Val{T: "false"}, t, nil
		case o.Val().Kind() == constant.Int:
			s := o.Val().ExactString()
			if strings.HasPrefix(s, "-") {
				s = "(- " + s[1:] + ")"
			}
			return Val{T: s}, t, nil
		case o.Val().Kind() == constant.String:
			return Val{T: e.strConst(constant.StringVal(o.Val()))}, t, nil
		case o.Val().Kind() == constant.Float:
			return Val{T: floatLit(o.Val())}, t, nil
		}
	case *types.Var:
		if o.Pkg() != nil && o.Parent() == o.Pkg().Scope() {
			v := e.S.globalVar(o.Pkg().Path(), o.Name(), o.Type())
			return Val{T: e.hget(env.heap, v)}, o.Type(), nil
		}
	case *types.Func:
		if fn := e.P.prog.FuncValue(o); fn != nil {
			return Val{T: e.fnId(fn)}, o.Type(), nil
		}
	}
	return Val{}, nil, fmt.Errorf("cannot use %v in a contract", obj)
}

// evalLoc evaluates an lvalue-like expression to a location (or a plain value).
func (env *SpecEnv) evalLoc(x ast.Expr) (specVal, error) {
	e := env.e
	switch n := x.(type) {
	case *ast.ParenExpr:
		return env.evalLoc(n.X)
	case *ast.Ident:
		if sv, ok := env.lookupLocal(n.Name); ok {
			return sv, nil
		}
		if e.con != nil {
			for _, g := range e.con.Ghosts {
				if g.Name == n.Name {
					l, t, err := env.ghostLoc(g)
					if err != nil {
						return specVal{}, err
					}
					return specVal{loc: l, t: t}, nil
				}
			}
		}
		if gl, gt, ok := env.gghostLoc(n.Name); ok {
			return specVal{loc: gl, t: gt}, nil
		}
		if obj := env.pkg.Scope().Lookup(n.Name); obj != nil {
			if o, ok := obj.(*types.Var); ok {
				v := e.S.globalVar(o.Pkg().Path(), o.Name(), o.Type())
				return specVal{loc: &Loc{Kind: locGlobal, T: o.Type(), Var: v}, t: o.Type()}, nil
			}
		}
		v, t, err := env.evalIdent(n.Name)
		return specVal{v: v, t: t}, err
	case *ast.StarExpr:
		b, err := env.evalLoc(n.X)
		if err != nil {
			return specVal{}, err
		}
		pt, ok := b.t.Underlying().(*types.Pointer)
		if !ok {
			return specVal{}, fmt.Errorf("deref of non-pointer %s", b.t)
		}
		if b.loc == nil && b.v.Loc != nil {
			// the pointer is the address of a field / element (e.g. &s.context passed as receiver)
			return specVal{loc: b.v.Loc, t: pt.Elem()}, nil
		}
		return specVal{loc: &Loc{Kind: locCell, T: pt.Elem(), Ptr: env.term(b)}, t: pt.Elem()}, nil
	case *ast.SelectorExpr:
		b, err := env.evalLoc(n.X)
		if err != nil {
			return specVal{}, err
		}
		bt := b.t
		var parent *Loc
		if pt, ok := bt.Underlying().(*types.Pointer); ok {
			parent = &Loc{Kind: locCell, T: pt.Elem(), Ptr: env.term(b)}
			bt = pt.Elem()
		} else if b.loc != nil {
			parent = b.loc
		}
		_, st := structKey(bt)
		if st == nil {
			if nt, ok := types.Unalias(bt).(*types.Named); ok {
				if s2, ok := nt.Underlying().(*types.Struct); ok {
					st = s2
				}
			}
		}
		if st == nil {
			return specVal{}, fmt.Errorf("selector .%s on non-struct %s", n.Sel.Name, bt)
		}
		for i := 0; i < st.NumFields(); i++ {
			if st.Field(i).Name() == n.Sel.Name {
				ft := st.Field(i).Type()
				if parent != nil {
					return specVal{loc: &Loc{Kind: locField, T: ft, Parent: parent, Field: i}, t: ft}, nil
				}
				return specVal{v: Val{T: fmt.Sprintf("(%s %s)", e.S.fieldAccessor(bt, i), env.term(b))}, t: ft}, nil
			}
		}
		// ghost fields
		if key, _ := structKey(bt); key != "" && parent != nil && parent.Kind == locCell {
			if gt, ok := e.P.specs.GhostFields[key+"."+n.Sel.Name]; ok {
				t, err := env.lookupType(gt)
				if err != nil {
					return specVal{}, err
				}
				hv := e.S.heapVar("F!"+key+"!$"+n.Sel.Name, "(Array Int "+e.S.sortOf(t)+")")
				return specVal{loc: &Loc{Kind: locGField, T: t, Ptr: parent.Ptr, Var: hv}, t: t}, nil
			}
		}
		// embedded fields (one level)
		for i := 0; i < st.NumFields(); i++ {
			if st.Field(i).Embedded() {
				if _, st2 := structKey(st.Field(i).Type()); st2 != nil {
					for j := 0; j < st2.NumFields(); j++ {
						if st2.Field(j).Name() == n.Sel.Name && parent != nil {
							mid := &Loc{Kind: locField, T: st.Field(i).Type(), Parent: parent, Field: i}
							ft := st2.Field(j).Type()
							return specVal{loc: &Loc{Kind: locField, T: ft, Parent: mid, Field: j}, t: ft}, nil
						}
					}
				}
			}
		}
		return specVal{}, fmt.Errorf("no field %s in %s", n.Sel.Name, bt)
	case *ast.IndexExpr:
		b, err := env.evalLoc(n.X)
		if err != nil {
			return specVal{}, err
		}
		if id, ok := n.Index.(*ast.Ident); ok && id.Name == "_" {
			// s[_]: the whole backing array of slice s
			if sl, ok := b.t.Underlying().(*types.Slice); ok {
				bt := env.term(b)
				return specVal{loc: &Loc{Kind: locElemAll, T: sl.Elem(), Base: "(sl_base " + bt + ")"}, t: sl.Elem()}, nil
			}
			if _, ok := b.t.Underlying().(*types.Map); ok {
				return specVal{loc: &Loc{Kind: locMapAll, T: b.t, Ptr: env.term(b)}, t: b.t}, nil
			}
		}
		idx, _, err := env.eval(n.Index)
		if err != nil {
			return specVal{}, err
		}
		if sl, ok := b.t.Underlying().(*types.Slice); ok {
			bt := env.term(b)
			return specVal{loc: &Loc{Kind: locElem, T: sl.Elem(), Base: "(sl_base " + bt + ")", Index: fmt.Sprintf("(+ (sl_off %s) %s)", bt, idx.T)}, t: sl.Elem()}, nil
		}
	}
	v, t, err := env.eval(x)
	return specVal{v: v, t: t}, err
}

func (env *SpecEnv) evalBinary(n *ast.BinaryExpr) (Val, types.Type, error) {
	a, at, err := env.eval(n.X)
	if err != nil {
		return Val{}, nil, err
	}
	b, bt, err := env.eval(n.Y)
	if err != nil {
		return Val{}, nil, err
	}
	t := at
	if _, isNil := at.(*types.Basic); isNil && at == types.Typ[types.UntypedNil] {
		t = bt
	}
	fl := isFloat(at) || isFloat(bt)
	switch n.Op {
	case token.LAND:
		return Val{T: and(a.T, b.T)}, tBool, nil
	case token.LOR:
		return Val{T: or(a.T, b.T)}, tBool, nil
	case token.EQL, token.NEQ:
		var r string
		switch {
		case fl:
			r = env.e.fop("eq", a.T, b.T)
		case isString(t):
			r = env.e.strEq(a.T, b.T)
		default:
			ta, tb := a.T, b.T
			// nil compared against slices / interfaces
			if at == types.Typ[types.UntypedNil] {
				ta = env.e.S.zero(bt)
			}
			if bt == types.Typ[types.UntypedNil] {
				tb = env.e.S.zero(at)
			}
			if _, ok := t.Underlying().(*types.Slice); ok && (at == types.Typ[types.UntypedNil] || bt == types.Typ[types.UntypedNil]) {
				x := a.T
				if at == types.Typ[types.UntypedNil] {
					x = b.T
				}
				r = fmt.Sprintf("(= (sl_base %s) 0)", x)
			} else if _, ok := t.Underlying().(*types.Interface); ok && (at == types.Typ[types.UntypedNil] || bt == types.Typ[types.UntypedNil]) {
				x := a.T
				if at == types.Typ[types.UntypedNil] {
					x = b.T
				}
				r = fmt.Sprintf("(= (i_tag %s) 0)", x)
			} else {
				r = fmt.Sprintf("(= %s %s)", ta, tb)
			}
		}
		if n.Op == token.NEQ {
			r = not(r)
		}
		return Val{T: r}, tBool, nil
	case token.LSS, token.LEQ, token.GTR, token.GEQ:
		if fl {
			op := map[token.Token]string{token.LSS: "lt", token.LEQ: "leq", token.GTR: "gt", token.GEQ: "geq"}[n.Op]
			return Val{T: env.e.fop(op, a.T, b.T)}, tBool, nil
		}
		op := map[token.Token]string{token.LSS: "<", token.LEQ: "<=", token.GTR: ">", token.GEQ: ">="}[n.Op]
		return Val{T: fmt.Sprintf("(%s %s %s)", op, a.T, b.T)}, tBool, nil
	case token.ADD, token.SUB, token.MUL:
		if fl {
			op := map[token.Token]string{token.ADD: "add", token.SUB: "sub", token.MUL: "mul"}[n.Op]
			return Val{T: env.e.fop(op, a.T, b.T)}, t, nil
		}
		op := map[token.Token]string{token.ADD: "+", token.SUB: "-", token.MUL: "*"}[n.Op]
		return Val{T: fmt.Sprintf("(%s %s %s)", op, a.T, b.T)}, t, nil
	case token.QUO:
		if fl {
			return Val{T: env.e.fop("div", a.T, b.T)}, t, nil
		}
		return Val{T: fmt.Sprintf("(godiv %s %s)", a.T, b.T)}, t, nil
	case token.REM:
		return Val{T: fmt.Sprintf("(gomod %s %s)", a.T, b.T)}, t, nil
	}
	return Val{}, nil, fmt.Errorf("unsupported operator %s", n.Op)
}

func (e *Enc) strEq(a, b string) string {
	// constant on either side: expand
	for s, name := range e.S.strC {
		if name == b || name == a {
			other := a
			if name == a {
				other = b
			}
			if len(s) <= 32 {
				parts := []string{fmt.Sprintf("(= (s_len %s) %d)", other, len(s))}
				for i := 0; i < len(s); i++ {
					parts = append(parts, fmt.Sprintf("(= (str_at %s %d) %d)", other, i, s[i]))
				}
				return and(parts...)
			}
		}
	}
	// str_eq is uninterpreted; writing both orientations makes the modelled equality symmetric
	return fmt.Sprintf("(or (= %s %s) (str_eq %s %s) (str_eq %s %s))", a, b, a, b, b, a)
}

func (env *SpecEnv) evalCall(n *ast.CallExpr) (Val, types.Type, error) {
	e := env.e
	fname := ""
	switch fx := n.Fun.(type) {
	case *ast.Ident:
		fname = fx.Name
	case *ast.ParenExpr, *ast.StarExpr, *ast.SelectorExpr, *ast.ArrayType:
		// conversion T(x)
		if len(n.Args) == 1 {
			return env.evalConversion(n.Fun, n.Args[0])
		}
	}
	argv := func(i int) (Val, types.Type, error) { return env.eval(n.Args[i]) }
	switch fname {
	case "implies":
		a, _, err := argv(0)
		if err != nil {
			return Val{}, nil, err
		}
		b, _, err := argv(1)
		if err != nil {
			return Val{}, nil, err
		}
		return Val{T: fmt.Sprintf("(=> %s %s)", a.T, b.T)}, tBool, nil
	case "ite":
		c, _, err := argv(0)
		if err != nil {
			return Val{}, nil, err
		}
		a, t, err := argv(1)
		if err != nil {
			return Val{}, nil, err
		}
		b, _, err := argv(2)
		if err != nil {
			return Val{}, nil, err
		}
		return Val{T: fmt.Sprintf("(ite %s %s %s)", c.T, a.T, b.T)}, t, nil
	case "len", "cap":
		a, t, err := argv(0)
		if err != nil {
			return Val{}, nil, err
		}
		switch u := t.Underlying().(type) {
		case *types.Basic:
			return Val{T: "(s_len " + a.T + ")"}, tInt, nil
		case *types.Slice:
			if fname == "cap" {
				return Val{T: "(sl_cap " + a.T + ")"}, tInt, nil
			}
			return Val{T: "(sl_len " + a.T + ")"}, tInt, nil
		case *types.Map:
			return Val{T: fmt.Sprintf("(select %s %s)", e.hget(env.heap, e.S.mapLenVar()), a.T)}, tInt, nil
		case *types.Array:
			return Val{T: fmt.Sprint(u.Len())}, tInt, nil
		}
		return Val{}, nil, fmt.Errorf("len of %s", t)
	case "old":
		if env.old == nil {
			return env.eval(n.Args[0])
		}
		o := env.old.child()
		// quantifier-bound names stay visible inside old()
		for k, v := range env.names {
			if _, shadow := o.names[k]; !shadow && strings.HasPrefix(v.v.T, "|?") {
				o.names[k] = v
			}
		}
		return o.eval(n.Args[0])
	case "forall", "exists":
		// forall(i, lo, hi, body): i in [lo, hi)
		id, ok := n.Args[0].(*ast.Ident)
		if !ok || len(n.Args) != 4 {
			return Val{}, nil, fmt.Errorf("%s(i, lo, hi, body)", fname)
		}
		lo, _, err := argv(1)
		if err != nil {
			return Val{}, nil, err
		}
		hi, _, err := argv(2)
		if err != nil {
			return Val{}, nil, err
		}
		c := env.child()
		e.n++
		bv := fmt.Sprintf("?%s%d", id.Name, e.n)
		bvq := "|" + bv + "|"
		c.names[id.Name] = specVal{v: Val{T: bvq}, t: tInt}
		if c.old != nil {
			oc := c.old.child()
			oc.names[id.Name] = c.names[id.Name]
			c.old = oc
		}
		body, _, err := c.eval(n.Args[3])
		if err != nil {
			return Val{}, nil, err
		}
		rng := fmt.Sprintf("(and (<= %s %s) (< %s %s))", lo.T, bvq, bvq, hi.T)
		if fname == "forall" {
			return Val{T: fmt.Sprintf("(forall ((%s Int)) (=> %s %s))", bvq, rng, body.T)}, tBool, nil
		}
		return Val{T: fmt.Sprintf("(exists ((%s Int)) (and %s %s))", bvq, rng, body.T)}, tBool, nil
	case "forallof":
		// forallof(x, T, body): x ranges over all well-formed values of Go type T
		id, ok := n.Args[0].(*ast.Ident)
		if !ok || len(n.Args) != 3 {
			return Val{}, nil, fmt.Errorf("forallof(x, T, body)")
		}
		qt, err := env.lookupType(exprString(n.Args[1]))
		if err != nil {
			return Val{}, nil, err
		}
		c := env.child()
		e.n++
		bvq := fmt.Sprintf("|?%s%d|", id.Name, e.n)
		c.names[id.Name] = specVal{v: Val{T: bvq}, t: qt}
		if c.old != nil {
			oc := c.old.child()
			oc.names[id.Name] = c.names[id.Name]
			c.old = oc
		}
		body, _, err := c.eval(n.Args[2])
		if err != nil {
			return Val{}, nil, err
		}
		return Val{T: fmt.Sprintf("(forall ((%s %s)) %s)", bvq, e.S.sortOf(qt), body.T)}, tBool, nil
	case "fresh":
		a, at, err := argv(0)
		if err != nil {
			return Val{}, nil, err
		}
		oh := env.heap
		if env.old != nil {
			oh = env.old.heap
		}
		if _, isSl := at.Underlying().(*types.Slice); isSl {
			// a slice is fresh when it is nil or its backing array was allocated during this call
			return Val{T: fmt.Sprintf("(or (= (sl_base %s) 0) (>= (sl_base %s) %s))", a.T, a.T, e.hget(oh, e.S.allocVar()))}, tBool, nil
		}
		return Val{T: fmt.Sprintf("(>= %s %s)", a.T, e.hget(oh, e.S.allocVar()))}, tBool, nil
	case "loopvariant":
		// value of an enclosing loop's (first) variant at the start of its current iteration
		lit, ok := n.Args[0].(*ast.BasicLit)
		if !ok || env.f == nil {
			return Val{}, nil, fmt.Errorf("loopvariant(k)")
		}
		k, _ := strconv.Atoi(lit.Value)
		for _, li := range env.f.loops {
			if li.ordinal == k && len(li.variant) > 0 {
				return Val{T: li.variant[0]}, tInt, nil
			}
		}
		return Val{}, nil, fmt.Errorf("loopvariant(%d): loop has no declared variant (or is not entered yet)", k)
	case "unchangedarray":
		// unchangedarray(x): the backing array of slice x (evaluated in the old state) has the same contents now as then
		if env.old == nil {
			return Val{T: "true"}, tBool, nil
		}
		a, at, err := env.old.child().eval(n.Args[0])
		if err != nil {
			return Val{}, nil, err
		}
		sl, ok := at.Underlying().(*types.Slice)
		if !ok {
			return Val{}, nil, fmt.Errorf("unchangedarray on %s", at)
		}
		ev := e.S.elemVar(sl.Elem())
		return Val{T: fmt.Sprintf("(= (select %s (sl_base %s)) (select %s (sl_base %s)))", e.hget(env.heap, ev), a.T, e.hget(env.old.heap, ev), a.T)}, tBool, nil
	case "subslice":
		// subslice(a, b, k): a is the part b[k : k+len(a)] of b (same storage)
		a, at, err := argv(0)
		if err != nil {
			return Val{}, nil, err
		}
		b, _, err := argv(1)
		if err != nil {
			return Val{}, nil, err
		}
		k, _, err := argv(2)
		if err != nil {
			return Val{}, nil, err
		}
		if _, ok := at.Underlying().(*types.Slice); !ok {
			return Val{}, nil, fmt.Errorf("subslice on %s", at)
		}
		return Val{T: fmt.Sprintf("(and (= (sl_base %s) (sl_base %s)) (= (sl_off %s) (+ (sl_off %s) %s)) (<= 0 %s) (<= (+ %s (sl_len %s)) (sl_len %s)))", a.T, b.T, a.T, b.T, k.T, k.T, k.T, a.T, b.T)}, tBool, nil
	case "base":
		// base(x): identity of the backing array of slice x (0 for nil)
		a, at, err := argv(0)
		if err != nil {
			return Val{}, nil, err
		}
		if _, ok := at.Underlying().(*types.Slice); !ok {
			return Val{}, nil, fmt.Errorf("base on %s", at)
		}
		return Val{T: fmt.Sprintf("(sl_base %s)", a.T)}, tInt, nil
	case "otherarraysunchanged":
		// otherarraysunchanged(x): every array of x's element type that existed in the old state, other than
		// the backing array x had then, has the same contents now
		if env.old == nil {
			return Val{T: "true"}, tBool, nil
		}
		a, at, err := env.old.child().eval(n.Args[0])
		if err != nil {
			return Val{}, nil, err
		}
		sl, ok := at.Underlying().(*types.Slice)
		if !ok {
			return Val{}, nil, fmt.Errorf("otherarraysunchanged on %s", at)
		}
		ev := e.S.elemVar(sl.Elem())
		e.n++
		bv := fmt.Sprintf("|?arr%d|", e.n)
		return Val{T: fmt.Sprintf("(forall ((%s Int)) (=> (and (> %s 0) (< %s %s) (not (= %s (sl_base %s)))) (= (select %s %s) (select %s %s))))",
			bv, bv, bv, e.hget(env.old.heap, e.S.allocVar()), bv, a.T, e.hget(env.heap, ev), bv, e.hget(env.old.heap, ev), bv)}, tBool, nil
	case "unchangedmap":
		// unchangedmap(m): the map m (evaluated in the old state) has the same keys and values now as then
		if env.old == nil {
			return Val{T: "true"}, tBool, nil
		}
		a, at, err := env.old.child().eval(n.Args[0])
		if err != nil {
			return Val{}, nil, err
		}
		mt, ok := at.Underlying().(*types.Map)
		if !ok {
			return Val{}, nil, fmt.Errorf("unchangedmap on %s", at)
		}
		mv, dv := e.S.mapVar(mt), e.S.mapDomVar(mt)
		return Val{T: fmt.Sprintf("(and (= (select %s %s) (select %s %s)) (= (select %s %s) (select %s %s)))",
			e.hget(env.heap, mv), a.T, e.hget(env.old.heap, mv), a.T, e.hget(env.heap, dv), a.T, e.hget(env.old.heap, dv), a.T)}, tBool, nil
	case "allocmark":
		return Val{T: e.hget(env.heap, e.S.allocVar())}, tInt, nil
	case "typeis":
		a, _, err := argv(0)
		if err != nil {
			return Val{}, nil, err
		}
		t, err := env.lookupType(exprString(n.Args[1]))
		if err != nil {
			return Val{}, nil, err
		}
		return Val{T: fmt.Sprintf("(= (i_tag %s) %d)", a.T, e.S.tagOf(t))}, tBool, nil
	case "implements":
		a, _, err := argv(0)
		if err != nil {
			return Val{}, nil, err
		}
		t, err := env.lookupType(exprString(n.Args[1]))
		if err != nil {
			return Val{}, nil, err
		}
		I, ok := t.Underlying().(*types.Interface)
		if !ok {
			return Val{}, nil, fmt.Errorf("implements: %s is not an interface", t)
		}
		e.ifaces[typeKey(t)] = I
		return Val{T: fmt.Sprintf("(%s (i_tag %s))", e.S.implementsPred(t), a.T)}, tBool, nil
	case "haskey":
		m, mt, err := argv(0)
		if err != nil {
			return Val{}, nil, err
		}
		k, _, err := argv(1)
		if err != nil {
			return Val{}, nil, err
		}
		mm, ok := mt.Underlying().(*types.Map)
		if !ok {
			return Val{}, nil, fmt.Errorf("haskey on %s", mt)
		}
		return Val{T: fmt.Sprintf("(select (select %s %s) %s)", e.hget(env.heap, e.S.mapDomVar(mm)), m.T, k.T)}, tBool, nil
	case "isnil":
		a, t, err := argv(0)
		if err != nil {
			return Val{}, nil, err
		}
		switch t.Underlying().(type) {
		case *types.Interface:
			return Val{T: fmt.Sprintf("(= (i_tag %s) 0)", a.T)}, tBool, nil
		case *types.Slice:
			return Val{T: fmt.Sprintf("(= (sl_base %s) 0)", a.T)}, tBool, nil
		}
		return Val{T: fmt.Sprintf("(= %s 0)", a.T)}, tBool, nil
	case "unbox":
		// unbox(x, T): the dynamic value of interface x viewed as T
		a, _, err := argv(0)
		if err != nil {
			return Val{}, nil, err
		}
		t, err := env.lookupType(exprString(n.Args[1]))
		if err != nil {
			return Val{}, nil, err
		}
		return Val{T: e.unboxTerm(a.T, t)}, t, nil
	case "fn":
		lit, ok := n.Args[0].(*ast.BasicLit)
		if !ok {
			return Val{}, nil, fmt.Errorf("fn needs a string literal")
		}
		name, _ := strconv.Unquote(lit.Value)
		fnv := e.P.funcs[env.pkg.Path()+"::"+name]
		if fnv == nil {
			return Val{}, nil, fmt.Errorf("fn(%q): no such function", name)
		}
		return Val{T: e.fnId(fnv)}, fnv.Signature, nil
	case "isNaN":
		a, _, err := argv(0)
		if err != nil {
			return Val{}, nil, err
		}
		return Val{T: "(fp.isNaN " + a.T + ")"}, tBool, nil
	case "isInf":
		a, _, err := argv(0)
		if err != nil {
			return Val{}, nil, err
		}
		return Val{T: "(fp.isInfinite " + a.T + ")"}, tBool, nil
	case "substr":
		// substr(a, s, k): string value a is s[k : k+len(a)] (same backing bytes)
		a, _, err := argv(0)
		if err != nil {
			return Val{}, nil, err
		}
		s, _, err := argv(1)
		if err != nil {
			return Val{}, nil, err
		}
		k, _, err := argv(2)
		if err != nil {
			return Val{}, nil, err
		}
		return Val{T: fmt.Sprintf("(and (= (s_arr %s) (s_arr %s)) (= (s_off %s) (+ (s_off %s) %s)))", a.T, s.T, a.T, s.T, k.T)}, tBool, nil
	case "bytesare":
		// bytesare(b, "lit"): byte slice b holds exactly the bytes of the literal
		a, at, err := argv(0)
		if err != nil {
			return Val{}, nil, err
		}
		lit, ok := n.Args[1].(*ast.BasicLit)
		if !ok {
			return Val{}, nil, fmt.Errorf("bytesare needs a string literal")
		}
		str, err := strconv.Unquote(lit.Value)
		if err != nil {
			return Val{}, nil, err
		}
		if isString(at) {
			parts := []string{fmt.Sprintf("(= (s_len %s) %d)", a.T, len(str))}
			for i := 0; i < len(str); i++ {
				parts = append(parts, fmt.Sprintf("(= (str_at %s %d) %d)", a.T, i, str[i]))
			}
			return Val{T: and(parts...)}, tBool, nil
		}
		sl, ok := at.Underlying().(*types.Slice)
		if !ok {
			return Val{}, nil, fmt.Errorf("bytesare on %s", at)
		}
		arr := fmt.Sprintf("(select %s (sl_base %s))", e.hget(env.heap, e.S.elemVar(sl.Elem())), a.T)
		parts := []string{fmt.Sprintf("(= (sl_len %s) %d)", a.T, len(str))}
		for i := 0; i < len(str); i++ {
			parts = append(parts, fmt.Sprintf("(= (select %s (+ (sl_off %s) %d)) %d)", arr, a.T, i, str[i]))
		}
		return Val{T: and(parts...)}, tBool, nil
	case "same":
		// same(a, b): identical values (for floats: the same float64, not IEEE ==)
		a, _, err := argv(0)
		if err != nil {
			return Val{}, nil, err
		}
		b, _, err := argv(1)
		if err != nil {
			return Val{}, nil, err
		}
		return Val{T: fmt.Sprintf("(= %s %s)", a.T, b.T)}, tBool, nil
	case "sameslice":
		a, _, err := argv(0)
		if err != nil {
			return Val{}, nil, err
		}
		b, _, err := argv(1)
		if err != nil {
			return Val{}, nil, err
		}
		return Val{T: fmt.Sprintf("(= %s %s)", a.T, b.T)}, tBool, nil
	case "int", "int64", "int32", "rune", "byte", "uint8", "uint", "uint64", "uint32", "float64", "string", "bool":
		return env.evalConversion(n.Fun, n.Args[0])
	}
	// spec predicate?
	if p := env.lookupPred(fname); p != nil {
		if len(n.Args) != len(p.Params) {
			return Val{}, nil, fmt.Errorf("pred %s: %d args", fname, len(n.Args))
		}
		if env.depth > 20 {
			return Val{}, nil, fmt.Errorf("pred %s: expansion too deep", fname)
		}
		c := &SpecEnv{e: e, f: env.f, pkg: env.pkg, heap: env.heap, names: map[string]specVal{}, depth: env.depth + 1}
		if pp := e.P.pkgByPath(p.PkgPath); pp != nil {
			c.pkg = pp
		}
		if env.old != nil {
			c.old = &SpecEnv{e: e, f: env.f, pkg: c.pkg, heap: env.old.heap, names: map[string]specVal{}, depth: env.depth + 1}
		}
		for i, a := range n.Args {
			v, t, err := env.eval(a)
			if err != nil {
				return Val{}, nil, err
			}
			c.names[p.Params[i]] = specVal{v: v, t: t}
			if c.old != nil {
				c.old.names[p.Params[i]] = specVal{v: v, t: t}
			}
		}
		return c.eval(p.Body.Expr)
	}
	if sf := env.lookupSpecFn(fname); sf != nil {
		var args []string
		var sorts []string
		for i, a := range n.Args {
			v, _, err := env.eval(a)
			if err != nil {
				return Val{}, nil, err
			}
			pt, err := env.lookupType(sf.PTypes[i])
			if err != nil {
				return Val{}, nil, err
			}
			if _, isFn := pt.Underlying().(*types.Signature); isFn {
				args = append(args, "(fncode "+v.T+")")
			} else {
				args = append(args, v.T)
			}
			sorts = append(sorts, e.S.sortOf(pt))
		}
		rt, err := env.lookupType(sf.RType)
		if err != nil {
			return Val{}, nil, err
		}
		sym := "specfn!" + sf.Name
		e.S.declare(sym, fmt.Sprintf("(declare-fun %s (%s) %s)", q(sym), strings.Join(sorts, " "), e.S.sortOf(rt)))
		return Val{T: fmt.Sprintf("(%s %s)", q(sym), strings.Join(args, " "))}, rt, nil
	}
	// a type conversion through a named type: T(x)
	if len(n.Args) == 1 {
		if _, err := env.lookupType(fname); err == nil {
			return env.evalConversion(n.Fun, n.Args[0])
		}
	}
	return Val{}, nil, fmt.Errorf("unknown spec function %q", fname)
}

func (e *Enc) unboxTerm(iface string, t types.Type) string {
	so := e.S.sortOf(t)
	if so == "Int" {
		return "(i_val " + iface + ")"
	}
	return fmt.Sprintf("(%s (i_val %s))", e.S.unboxFn(t), iface)
}

func (env *SpecEnv) lookupPred(name string) *Pred {
	if p, ok := env.e.P.specs.Preds[env.pkg.Path()+"::"+name]; ok {
		return p
	}
	return env.e.P.specs.Preds[name]
}
func (env *SpecEnv) lookupSpecFn(name string) *SpecFn {
	if p, ok := env.e.P.specs.SpecFns[env.pkg.Path()+"::"+name]; ok {
		return p
	}
	return env.e.P.specs.SpecFns[name]
}

func exprString(x ast.Expr) string {
	return types.ExprString(x)
}

func (env *SpecEnv) evalConversion(tx ast.Expr, arg ast.Expr) (Val, types.Type, error) {
	t, err := env.lookupType(exprString(tx))
	if err != nil {
		return Val{}, nil, err
	}
	v, vt, err := env.eval(arg)
	if err != nil {
		return Val{}, nil, err
	}
	switch {
	case isFloat(t) && isIntType(vt):
		return Val{T: env.e.fop("i2f", v.T)}, t, nil
	case isIntType(t) && isFloat(vt):
		return Val{T: env.e.fop("f2i", v.T)}, t, nil
	}
	return Val{T: v.T}, t, nil
}
