package main

// Go type -> SMT sort mapping, zero values, quoting helpers.

import (
	"fmt"
	"go/types"
	"sort"
	"strings"
)

// Sorts is the global registry of SMT sorts / heap variables / declared
// symbols used by one encoding. It accumulates a header (declarations) that is
// prepended to every query.
type Sorts struct {
	hdr       strings.Builder
	declared  map[string]bool   // symbols declared in hdr
	structs   map[string]bool   // struct datatypes declared
	heapSort  map[string]string // heap variable -> sort
	tags      map[string]int    // dynamic type string -> tag id
	tagTypes  []types.Type
	tagOrder  []string
	ifaceDecl map[string]bool
	strC      map[string]string
	fnIds     map[string]int
}

func newSorts() *Sorts {
	s := &Sorts{declared: map[string]bool{}, structs: map[string]bool{}, heapSort: map[string]string{}, tags: map[string]int{}, ifaceDecl: map[string]bool{}, strC: map[string]string{}, fnIds: map[string]int{}}
	s.hdr.WriteString(prelude)
	return s
}

const prelude = `(set-option :produce-models true)
(set-logic ALL)
(define-sort F64 () (_ FloatingPoint 11 53))
(declare-datatypes ((Str 0)) (((mk_str (s_arr (Array Int Int)) (s_off Int) (s_len Int)))))
(declare-datatypes ((Slice 0)) (((mk_slice (sl_base Int) (sl_off Int) (sl_len Int) (sl_cap Int)))))
(declare-datatypes ((Iface 0)) (((mk_iface (i_tag Int) (i_val Int)))))
(define-fun godiv ((a Int) (b Int)) Int (ite (>= a 0) (ite (> b 0) (div a b) (- (div a (- b)))) (ite (> b 0) (- (div (- a) b)) (div (- a) (- b)))))
(define-fun gomod ((a Int) (b Int)) Int (- a (* b (godiv a b))))
(define-fun str_at ((s Str) (i Int)) Int (select (s_arr s) (+ (s_off s) i)))
(declare-fun str_eq (Str Str) Bool)
(declare-fun str_cat (Str Str) Str)
(declare-fun bit_and (Int Int) Int)
(declare-fun bit_or (Int Int) Int)
(declare-fun bit_xor (Int Int) Int)
(declare-fun bit_shl (Int Int) Int)
(declare-fun bit_shr (Int Int) Int)
(declare-fun bit_andnot (Int Int) Int)
(declare-fun fncode (Int) Int)
(declare-fun fadd (F64 F64) F64)
(declare-fun fsub (F64 F64) F64)
(declare-fun fmul (F64 F64) F64)
(declare-fun fdiv (F64 F64) F64)
(declare-fun fneg (F64) F64)
(declare-fun flt (F64 F64) Bool)
(declare-fun fle (F64 F64) Bool)
(declare-fun feq (F64 F64) Bool)
(declare-fun i2f (Int) F64)
(declare-fun f2i (F64) Int)
(define-fun nil_iface () Iface (mk_iface 0 0))
(define-fun nil_slice () Slice (mk_slice 0 0 0 0))
`

func q(name string) string {
	ok := true
	for _, c := range name {
		if !(c >= 'a' && c <= 'z' || c >= 'A' && c <= 'Z' || c >= '0' && c <= '9' || c == '_' || c == '!' || c == '.' || c == '$') {
			ok = false
			break
		}
	}
	if ok && name != "" && !(name[0] >= '0' && name[0] <= '9') {
		return name
	}
	return "|" + strings.ReplaceAll(strings.ReplaceAll(name, "|", "!"), "\\", "!") + "|"
}

func (s *Sorts) declare(sym, text string) {
	if s.declared[sym] {
		return
	}
	s.declared[sym] = true
	s.hdr.WriteString(text)
	s.hdr.WriteString("\n")
}

func typeKey(t types.Type) string {
	return types.TypeString(t, nil)
}

// sortOf maps a Go type to an SMT sort name (declaring datatypes on demand).
func (s *Sorts) sortOf(t types.Type) string {
	switch u := t.(type) {
	case *types.Named:
		if st, ok := u.Underlying().(*types.Struct); ok {
			return s.structSort(typeKey(u), st)
		}
		return s.sortOf(u.Underlying())
	case *types.Alias:
		return s.sortOf(types.Unalias(u))
	case *types.Basic:
		switch {
		case u.Info()&types.IsBoolean != 0:
			return "Bool"
		case u.Info()&types.IsInteger != 0:
			return "Int"
		case u.Info()&types.IsFloat != 0:
			return "F64"
		case u.Info()&types.IsString != 0:
			return "Str"
		case u.Kind() == types.UnsafePointer:
			return "Int"
		case u.Kind() == types.UntypedNil:
			return "Int"
		}
		return "Int"
	case *types.Pointer, *types.Map, *types.Chan, *types.Signature:
		return "Int"
	case *types.Slice:
		return "Slice"
	case *types.Interface:
		return "Iface"
	case *types.Struct:
		return s.structSort("anon{"+typeKey(u)+"}", u)
	case *types.Array:
		return "(Array Int " + s.sortOf(u.Elem()) + ")"
	case *types.Tuple:
		return "Int"
	case *types.TypeParam:
		return "Iface"
	}
	return "Int"
}

func (s *Sorts) structSort(key string, st *types.Struct) string {
	name := q("S!" + key)
	if s.structs[key] {
		return name
	}
	s.structs[key] = true
	var fs []string
	for i := 0; i < st.NumFields(); i++ {
		f := st.Field(i)
		fs = append(fs, fmt.Sprintf("(%s %s)", q(fmt.Sprintf("f!%s!%s", key, f.Name())), s.sortOf(f.Type())))
	}
	if len(fs) == 0 {
		fs = append(fs, fmt.Sprintf("(%s Int)", q("f!"+key+"!$dummy")))
	}
	s.declare("S!"+key, fmt.Sprintf("(declare-datatypes ((%s 0)) (((%s %s))))", name, q("mk!"+key), strings.Join(fs, " ")))
	return name
}

func structKey(t types.Type) (string, *types.Struct) {
	t = types.Unalias(t)
	if n, ok := t.(*types.Named); ok {
		if st, ok := n.Underlying().(*types.Struct); ok {
			return typeKey(n), st
		}
		return "", nil
	}
	if st, ok := t.(*types.Struct); ok {
		return "anon{" + typeKey(st) + "}", st
	}
	return "", nil
}

func (s *Sorts) fieldAccessor(t types.Type, i int) string {
	key, st := structKey(t)
	s.sortOf(t)
	return q(fmt.Sprintf("f!%s!%s", key, st.Field(i).Name()))
}

func (s *Sorts) structCtor(t types.Type) string {
	key, _ := structKey(t)
	s.sortOf(t)
	return q("mk!" + key)
}

// zero returns the zero value term for a Go type.
func (s *Sorts) zero(t types.Type) string {
	switch u := types.Unalias(t).(type) {
	case *types.Named:
		if _, ok := u.Underlying().(*types.Struct); ok {
			return s.zeroStruct(u)
		}
		return s.zero(u.Underlying())
	case *types.Basic:
		switch {
		case u.Info()&types.IsBoolean != 0:
			return "false"
		case u.Info()&types.IsFloat != 0:
			return "(_ +zero 11 53)"
		case u.Info()&types.IsString != 0:
			return "(mk_str ((as const (Array Int Int)) 0) 0 0)"
		}
		return "0"
	case *types.Slice:
		return "nil_slice"
	case *types.Interface, *types.TypeParam:
		return "nil_iface"
	case *types.Struct:
		return s.zeroStruct(u)
	case *types.Array:
		return fmt.Sprintf("((as const %s) %s)", s.sortOf(u), constTerm(s.zero(u.Elem())))
	}
	return "0"
}

func (s *Sorts) zeroStruct(t types.Type) string {
	_, st := structKey(t)
	if st.NumFields() == 0 {
		return "(" + s.structCtor(t) + " 0)"
	}
	var parts []string
	for i := 0; i < st.NumFields(); i++ {
		parts = append(parts, s.zero(st.Field(i).Type()))
	}
	return "(" + s.structCtor(t) + " " + strings.Join(parts, " ") + ")"
}

// heap variable names -------------------------------------------------------

func (s *Sorts) heapVar(name, sort string) string {
	if old, ok := s.heapSort[name]; ok && old != sort {
		panic(fmt.Sprintf("heap var %s: sort %s vs %s", name, old, sort))
	}
	s.heapSort[name] = sort
	return name
}

func (s *Sorts) fieldVar(t types.Type, i int) string {
	key, st := structKey(t)
	return s.heapVar("F!"+key+"!"+st.Field(i).Name(), "(Array Int "+s.sortOf(st.Field(i).Type())+")")
}
// elemVar: the heap variable holding the backing arrays of slices with this
// element type. Arrays of different Go element types cannot alias (no unsafe in
// /repo), so each element type gets its own variable: "E!<sort>:<type>"
// (struct sorts are already named after their type).
func (s *Sorts) elemVar(elem types.Type) string {
	so := s.sortOf(elem)
	name := "E!" + so
	if so == "Int" || so == "Iface" || so == "Str" || so == "Bool" || so == "F64" || so == "Slice" {
		name += ":" + canonicalTypeName(elem)
	}
	return s.heapVar(name, "(Array Int (Array Int "+so+"))")
}
func (s *Sorts) cellVar(elem types.Type) string {
	so := s.sortOf(elem)
	return s.heapVar("P!"+so, "(Array Int "+so+")")
}
func (s *Sorts) mapVar(m *types.Map) string {
	k, v := s.sortOf(m.Key()), s.sortOf(m.Elem())
	return s.heapVar("M!"+k+"!"+v, "(Array Int (Array "+k+" "+v+"))")
}
func (s *Sorts) mapDomVar(m *types.Map) string {
	k := s.sortOf(m.Key())
	return s.heapVar("MD!"+k, "(Array Int (Array "+k+" Bool))")
}
func (s *Sorts) mapLenVar() string { return s.heapVar("ML", "(Array Int Int)") }
func (s *Sorts) globalVar(pkg, name string, t types.Type) string {
	return s.heapVar("G!"+pkg+"."+name, s.sortOf(t))
}
func (s *Sorts) allocVar() string { return s.heapVar("$alloc", "Int") }
func (s *Sorts) iterVar() string  { return s.heapVar("$iter", "(Array Int Int)") }

// interface tags ------------------------------------------------------------

func (s *Sorts) tagOf(t types.Type) int {
	k := typeKey(t)
	if id, ok := s.tags[k]; ok {
		return id
	}
	id := len(s.tags) + 1
	s.tags[k] = id
	s.tagTypes = append(s.tagTypes, t)
	s.tagOrder = append(s.tagOrder, k)
	return id
}

func (s *Sorts) unboxFn(t types.Type) string {
	so := s.sortOf(t)
	name := "unbox!" + so
	s.declare(name, fmt.Sprintf("(declare-fun %s (Int) %s)", q(name), so))
	return q(name)
}

// implementsPred returns the name of an uninterpreted predicate over tags that
// says whether the dynamic type implements interface I; axioms for all tagged
// types known so far are (re-)emitted by finishIfaceAxioms.
func (s *Sorts) implementsPred(I types.Type) string {
	k := "impl!" + typeKey(I)
	s.declare(k, fmt.Sprintf("(declare-fun %s (Int) Bool)", q(k)))
	s.ifaceDecl[typeKey(I)] = true
	return q(k)
}

func (s *Sorts) ifaceAxioms(ifaces map[string]*types.Interface) string {
	var b strings.Builder
	var keys []string
	for k := range ifaces {
		keys = append(keys, k)
	}
	sort.Strings(keys)
	for _, k := range keys {
		I := ifaces[k]
		pred := q("impl!" + k)
		fmt.Fprintf(&b, "(assert (not (%s 0)))\n", pred)
		for i, t := range s.tagTypes {
			if _, isI := t.Underlying().(*types.Interface); isI {
				continue
			}
			v := "false"
			if types.Implements(t, I) {
				v = "true"
			}
			fmt.Fprintf(&b, "(assert (= (%s %d) %s))\n", pred, i+1, v)
		}
	}
	return b.String()
}

func isPointerLike(t types.Type) bool {
	switch t.Underlying().(type) {
	case *types.Pointer, *types.Map, *types.Chan, *types.Signature:
		return true
	}
	if b, ok := t.Underlying().(*types.Basic); ok && b.Kind() == types.UnsafePointer {
		return true
	}
	return false
}

// constTerm expands defined constants, so that the term is a value in the
// sense cvc5 requires for the argument of a constant array.
func constTerm(z string) string {
	z = strings.ReplaceAll(z, "nil_iface", "(mk_iface 0 0)")
	return strings.ReplaceAll(z, "nil_slice", "(mk_slice 0 0 0 0)")
}

// canonicalTypeName: one name per Go type (byte and uint8, rune and int32 are the same type).
func canonicalTypeName(t types.Type) string {
	t = types.Unalias(t)
	if b, ok := t.(*types.Basic); ok {
		switch b.Kind() {
		case types.Uint8:
			return "uint8"
		case types.Int32:
			return "int32"
		}
	}
	return types.TypeString(t, nil)
}
