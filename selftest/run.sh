#!/bin/bash
# Must-fail corpus: every mutant in selftest/mutants/*.patch is applied to a scratch
# copy of /repo (outside /repo and /verif, removed afterwards) and the named check
# must report a VIOLATION whose obligation matches the expectation recorded in the
# patch header ("# expect: <property> <obligation-substring>").
# usage: run.sh [property-id [name-substring]]   (no argument: all mutants)
set -u
export GOFLAGS=-mod=mod GOPROXY=off GOSUMDB=off GOTOOLCHAIN=local
want="${1:-}"; only="${2:-}"
fail=0; n=0
for m in /verif/selftest/mutants/*.patch; do
  [ -e "$m" ] || continue
  exp=$(grep -m1 '^# expect:' "$m" | sed 's/^# expect: *//')
  prop=${exp%% *}; obl=${exp#* }
  [ -n "$want" ] && [ "$want" != "$prop" ] && continue
  [ -n "$only" ] && case "$(basename "$m")" in *"$only"*) ;; *) continue;; esac
  n=$((n+1))
  scratch=$(mktemp -d "${TMPDIR:-/tmp}/govc-selftest.XXXXXX")
  rsync -a --exclude .git /repo/ "$scratch/repo/"
  if ! (cd "$scratch/repo" && patch -p1 -s < "$m"); then echo "selftest: $m does not apply"; fail=1; rm -rf "$scratch"; continue; fi
  out=$(/verif/bin/govc check -repo "$scratch/repo" -outdir "$scratch/out" -noreplay -prop "$prop" -timeout 10 2>&1)
  if echo "$out" | grep -q "^load error"; then
    echo "selftest BROKEN MUTANT (does not compile): $(basename "$m")"; echo "$out" | head -2; fail=1; rm -rf "$scratch"; continue
  fi
  if echo "$out" | grep -q "^VIOLATION property=$prop " && ls "$scratch/out/replay" 2>/dev/null | grep -qF -- "$(echo "$obl" | tr -c 'A-Za-z0-9.#_\n-' '_')"; then
    echo "selftest ok: $(basename "$m") -> $prop $obl"
  else
    echo "selftest MISSED: $(basename "$m") expected $prop $obl"; echo "$out" | head -5; fail=1
  fi
  rm -rf "$scratch"
done
echo "selftest: $n mutants, fail=$fail"
exit $fail
